//! C13 — incremental signer/verifier equal one-shot RFC 8032 Ed25519, no carry-over.

use crate::engine::*;
use crate::gen::*;
use crate::refcodec::hex;
use crate::refcrypto::{self, RefKey};
use ed25519_dalek::{Signature, Signer, SigningKey, Verifier, VerifyingKey};
use proptest::prelude::*;
use roughenough::sign::{MsgSigner, MsgVerifier};
use serde::{Deserialize, Serialize};
use serde_json::Value;

#[derive(Debug, Clone, Serialize, Deserialize)]
pub struct SignHistory {
    pub seed: Hex,
    /// messages, each as a list of chunks
    pub msgs: Vec<Vec<Hex>>,
}

fn chunks() -> impl Strategy<Value = Vec<Hex>> {
    let chunk = prop_oneof![
        2 => Just(Hex(vec![])),
        3 => bytes(1usize..=1),
        6 => bytes(1usize..=96),
        2 => bytes(200usize..=1100),
    ];
    prop_oneof![
        1 => Just(vec![]),
        6 => proptest::collection::vec(chunk.clone(), 1..=4),
        2 => proptest::collection::vec(chunk, 5..=16),
    ]
    .prop_flat_map(|v: Vec<Hex>| (Just(v), prop_oneof![6 => Just(0usize), 1 => Just(4096usize), 1 => Just(4095usize), 1 => Just(1024usize), 1 => Just(1025usize)]))
    .prop_map(|(mut v, exact): (Vec<Hex>, usize)| {
        // boundary totals: pad the last chunk so that the message is exactly `exact` bytes long
        if exact > 0 {
            let cur: usize = v.iter().map(|c| c.0.len()).sum();
            if cur < exact {
                let fill: Vec<u8> = (0..exact - cur).map(|i| (i * 31 + 7) as u8).collect();
                match v.last_mut() {
                    Some(l) => l.0.extend(fill),
                    None => v.push(Hex(fill)),
                }
            }
        }
        // total length <= 4096
        let mut total = 0usize;
        for c in v.iter_mut() {
            if total + c.0.len() > 4096 {
                c.0.truncate(4096 - total);
            }
            total += c.0.len();
        }
        v
    })
}

fn history() -> impl Strategy<Value = SignHistory> {
    (seed32(), prop_oneof![3 => proptest::collection::vec(chunks(), 1..=4), 1 => proptest::collection::vec(chunks(), 5..=32)]).prop_map(|(seed, msgs)| SignHistory { seed, msgs })
}

pub fn check_history(ctx: &mut Ctx, c: &SignHistory) -> Res {
    let seed: [u8; 32] = match c.seed.0.as_slice().try_into() {
        Ok(s) => s,
        Err(_) => return Ok(()),
    };
    let dalek = SigningKey::from_bytes(&seed);
    let ring_key = RefKey::from_seed(&seed);
    let mut signer = match no_unwind(|| MsgSigner::from_seed(&seed)) {
        Ok(s) => s,
        Err(p) => return ctx.fail("from-seed-panic", p),
    };
    if signer.public_key_bytes() != ring_key.public() {
        return ctx.fail("public-key-differs-from-rfc8032", format!("seed {} -> {} but ring derives {}", hex(&seed), hex(&signer.public_key_bytes()), hex(&ring_key.public())));
    }
    let mut multi_chunk = false;
    for (k, m) in c.msgs.iter().enumerate() {
        ctx.eval();
        let concat: Vec<u8> = m.iter().flat_map(|c| c.0.iter().copied()).collect();
        let sig = match no_unwind(|| {
            for ch in m {
                signer.update(&ch.0);
            }
            signer.sign()
        }) {
            Ok(s) => s,
            Err(p) => return ctx.fail("sign-panic", p),
        };
        let want = dalek.sign(&concat).to_bytes().to_vec();
        let want_ring = ring_key.sign(&concat);
        if want != want_ring {
            return Err(viol("oracle-disagreement", "dalek and ring signatures differ (oracle bug)"));
        }
        if sig != want {
            return ctx.fail(
                if k == 0 { "signature-differs-first-message" } else { "signature-differs-later-message" },
                format!("message #{} ({} chunks, {} bytes): signer gave {}, one-shot Ed25519 gives {}", k, m.len(), concat.len(), hex(&sig), hex(&want)),
            );
        }
        if m.len() >= 2 {
            multi_chunk = true;
        }
    }
    ctx.class(&format!("sign:msgs={}{}", c.msgs.len().min(5), if multi_chunk { ":chunked" } else { "" }));
    if c.msgs.len() >= 2 && multi_chunk {
        ctx.nontrivial(&c.msgs);
    }
    Ok(())
}

/// several signer and verifier objects alive at once on one thread, fed in an interleaved order; objects may be dropped
/// with an unfinished message. Each object's result depends on ITS message alone.
#[derive(Debug, Clone, Serialize, Deserialize)]
pub enum MultiOp {
    /// feed a chunk to signer slot k (created on first use from seed k)
    Update(u8, Hex),
    /// finish the message of signer slot k
    Sign(u8),
    /// drop signer slot k (with whatever it has buffered); the next use creates a fresh one
    Drop(u8),
    /// feed a chunk to the verifier of slot k (created on first use with slot k's public key)
    VUpdate(u8, Hex),
    /// finish verifier slot k against the genuine signature of what it was fed (must accept), then drop it
    VFinish(u8),
}

pub fn check_multi(ctx: &mut Ctx, ops: &Vec<MultiOp>) -> Res {
    const SLOTS: usize = 3;
    let seeds: Vec<[u8; 32]> = (0..SLOTS).map(|k| <[u8; 32]>::try_from(&crate::refcrypto::sha512(&[&b"multi-signer"[..], &[k as u8][..]])[..32]).unwrap()).collect();
    let keys: Vec<RefKey> = seeds.iter().map(|s| RefKey::from_seed(s)).collect();
    let mut signers: Vec<Option<MsgSigner>> = (0..SLOTS).map(|_| None).collect();
    let mut sbuf: Vec<Vec<u8>> = vec![vec![]; SLOTS];
    let mut verifiers: Vec<Option<MsgVerifier>> = (0..SLOTS).map(|_| None).collect();
    let mut vbuf: Vec<Vec<u8>> = vec![vec![]; SLOTS];
    let mut interleaved = false;
    let mut last_fed: Option<usize> = None;
    for (n, op) in ops.iter().enumerate() {
        ctx.eval();
        match op {
            MultiOp::Update(k, ch) => {
                let k = *k as usize % SLOTS;
                if signers[k].is_none() {
                    signers[k] = Some(MsgSigner::from_seed(&seeds[k]));
                    sbuf[k].clear();
                }
                if no_unwind(|| signers[k].as_mut().unwrap().update(&ch.0)).is_err() {
                    return ctx.fail("multi|update-panic", format!("op #{}", n));
                }
                sbuf[k].extend_from_slice(&ch.0);
                if last_fed.map(|l| l != k).unwrap_or(false) && sbuf.iter().filter(|b| !b.is_empty()).count() >= 2 {
                    interleaved = true;
                }
                last_fed = Some(k);
            }
            MultiOp::Sign(k) => {
                let k = *k as usize % SLOTS;
                if signers[k].is_none() {
                    signers[k] = Some(MsgSigner::from_seed(&seeds[k]));
                    sbuf[k].clear();
                }
                let sig = match no_unwind(|| signers[k].as_mut().unwrap().sign()) {
                    Ok(s) => s,
                    Err(p) => return ctx.fail("multi|sign-panic", p),
                };
                let want = keys[k].sign(&sbuf[k]);
                if sig != want {
                    return ctx.fail(
                        "multi|signature-depends-on-other-objects",
                        format!("op #{}: signer {} was fed {} bytes of its own while other signers/verifiers were in use; its signature {} is not the Ed25519 signature of its own message ({})", n, k, sbuf[k].len(), hex(&sig), hex(&want)),
                    );
                }
                sbuf[k].clear();
            }
            MultiOp::Drop(k) => {
                let k = *k as usize % SLOTS;
                signers[k] = None;
                sbuf[k].clear();
            }
            MultiOp::VUpdate(k, ch) => {
                let k = *k as usize % SLOTS;
                if verifiers[k].is_none() {
                    verifiers[k] = Some(MsgVerifier::new(&keys[k].public()));
                    vbuf[k].clear();
                }
                verifiers[k].as_mut().unwrap().update(&ch.0);
                vbuf[k].extend_from_slice(&ch.0);
            }
            MultiOp::VFinish(k) => {
                let k = *k as usize % SLOTS;
                if let Some(v) = verifiers[k].take() {
                    let sig = keys[k].sign(&vbuf[k]);
                    let ok = no_unwind(|| v.verify(&sig)).unwrap_or(false);
                    if !ok {
                        return ctx.fail("multi|verifier-depends-on-other-objects", format!("op #{}: verifier {} rejects the genuine signature of the {} bytes it was fed", n, k, vbuf[k].len()));
                    }
                    // and it must reject the signature of a message of another slot's content, if that differs
                    let other = (k + 1) % SLOTS;
                    if sbuf[other] != vbuf[k] {
                        let wrong = keys[k].sign(&sbuf[other]);
                        let v2 = {
                            let mut v2 = MsgVerifier::new(&keys[k].public());
                            v2.update(&vbuf[k]);
                            v2
                        };
                        if no_unwind(|| v2.verify(&wrong)).unwrap_or(false) {
                            return ctx.fail("multi|verifier-accepts-other-message", format!("op #{}", n));
                        }
                    }
                    vbuf[k].clear();
                }
            }
        }
    }
    ctx.class(&format!("sign:multi:{}", if interleaved { "interleaved" } else { "sequential" }));
    if interleaved {
        ctx.nontrivial(&serde_json::to_string(ops).unwrap_or_default());
    }
    Ok(())
}

fn multi_ops() -> impl Strategy<Value = Vec<MultiOp>> {
    let chunk = prop_oneof![1 => Just(Hex(vec![])), 4 => bytes(1usize..=40), 1 => bytes(900usize..=1200)];
    let op = prop_oneof![
        6 => (0u8..3, chunk.clone()).prop_map(|(k, c)| MultiOp::Update(k, c)),
        3 => (0u8..3).prop_map(MultiOp::Sign),
        1 => (0u8..3).prop_map(MultiOp::Drop),
        2 => (0u8..3, chunk).prop_map(|(k, c)| MultiOp::VUpdate(k, c)),
        1 => (0u8..3).prop_map(MultiOp::VFinish),
    ];
    proptest::collection::vec(op, 2..=40)
}

#[derive(Debug, Clone, Serialize, Deserialize)]
pub enum Corrupt {
    None,
    SigBit(u16),
    KeyBit(u16),
    MsgBit(u32),
    SigLen(u8),
    OtherKey,
    /// key with one bit flipped AND a degenerate signature (0: R = neutral element, S = 0; 1: all zero; 2: honest R, S = 0;
    /// 3: R = the corrupted key bytes, S = 0): when the key does not decode nothing may be accepted under it
    KeyBitSpecialSig(u16, u8),
    /// the genuine signature with S replaced by S + L (L = the group order): the same point equation holds, but RFC 8032
    /// requires 0 <= S < L — a direct Ed25519 verification (ring; ed25519-dalek as shipped) rejects it
    SPlusL,
}

#[derive(Debug, Clone, Serialize, Deserialize)]
pub struct VerifyCase {
    pub seed: Hex,
    pub chunks: Vec<Hex>,
    pub corrupt: Corrupt,
}

pub fn check_verify(ctx: &mut Ctx, c: &VerifyCase) -> Res {
    ctx.eval();
    let seed: [u8; 32] = match c.seed.0.as_slice().try_into() {
        Ok(s) => s,
        Err(_) => return Ok(()),
    };
    let key = RefKey::from_seed(&seed);
    let mut pk = key.public();
    let mut msg: Vec<u8> = c.chunks.iter().flat_map(|c| c.0.iter().copied()).collect();
    let mut sig = key.sign(&msg);
    let mut chunks: Vec<Vec<u8>> = c.chunks.iter().map(|c| c.0.clone()).collect();
    match &c.corrupt {
        Corrupt::None => {}
        Corrupt::SigBit(b) => sig[(*b as usize / 8) % 64] ^= 1 << (b % 8),
        Corrupt::KeyBit(b) => pk[(*b as usize / 8) % 32] ^= 1 << (b % 8),
        Corrupt::MsgBit(b) => {
            if msg.is_empty() {
                return Ok(());
            }
            let pos = (*b as usize / 8) % msg.len();
            msg[pos] ^= 1 << (b % 8);
            // apply to the chunk that holds this byte
            let mut off = 0;
            for ch in chunks.iter_mut() {
                if pos < off + ch.len() {
                    ch[pos - off] ^= 1 << (b % 8);
                    break;
                }
                off += ch.len();
            }
        }
        Corrupt::SigLen(n) => sig.resize(*n as usize, 0x5a),
        Corrupt::KeyBitSpecialSig(b, kind) => {
            pk[(*b as usize / 8) % 32] ^= 1 << (b % 8);
            let mut special = vec![0u8; 64];
            match kind % 4 {
                0 => special[0] = 1,
                1 => {}
                2 => special[..32].copy_from_slice(&sig[..32]),
                _ => special[..32].copy_from_slice(&pk),
            }
            sig = special;
        }
        Corrupt::SPlusL => {
            // little-endian addition of L = 2^252 + 27742317777372353535851937790883648493
            const L: [u8; 32] = [0xed, 0xd3, 0xf5, 0x5c, 0x1a, 0x63, 0x12, 0x58, 0xd6, 0x9c, 0xf7, 0xa2, 0xde, 0xf9, 0xde, 0x14, 0, 0, 0, 0, 0, 0, 0, 0, 0, 0, 0, 0, 0, 0, 0, 0x10];
            let mut carry = 0u16;
            for i in 0..32 {
                let v = sig[32 + i] as u16 + L[i] as u16 + carry;
                sig[32 + i] = v as u8;
                carry = v >> 8;
            }
            if carry != 0 {
                return Ok(()); // S + L does not fit 256 bits for this signature
            }
        }
        Corrupt::OtherKey => {
            let mut s2 = seed;
            s2[0] ^= 1;
            pk = RefKey::from_seed(&s2).public();
        }
    }
    // oracle: direct Ed25519 verification with ed25519-dalek
    let direct = (|| -> Result<(), ()> {
        let pkb: [u8; 32] = pk.as_slice().try_into().map_err(|_| ())?;
        let vk = VerifyingKey::from_bytes(&pkb).map_err(|_| ())?;
        let s = Signature::from_slice(&sig).map_err(|_| ())?;
        vk.verify(&msg, &s).map_err(|_| ())
    })()
    .is_ok();
    // S + L: the verdict is the RFC's (reject), confirmed by ring — not whatever the ed25519-dalek build linked here
    // says (cargo feature unification gives the harness the same dalek build as the product)
    let direct = if matches!(c.corrupt, Corrupt::SPlusL) {
        if refcrypto::verify(&pk, &msg, &sig) {
            return Err(viol("oracle-disagreement", "ring accepts S + L"));
        }
        false
    } else {
        direct
    };
    // a panic anywhere in the incremental verifier counts as "reject"
    let got = no_unwind(|| {
        let mut v = MsgVerifier::new(&pk);
        for ch in &chunks {
            v.update(ch);
        }
        v.verify(&sig)
    })
    .unwrap_or(false);
    if got != direct {
        return ctx.fail(
            if got { "verifier-accepts-direct-rejects" } else { "verifier-rejects-direct-accepts" },
            format!("corruption {:?}: MsgVerifier={} direct={} pk={} msg={} sig={}", c.corrupt, got, direct, hex(&pk), hex(&msg[..msg.len().min(64)]), hex(&sig)),
        );
    }
    if matches!(c.corrupt, Corrupt::None) {
        if !direct || !refcrypto::verify(&pk, &msg, &sig) {
            return Err(viol("oracle-disagreement", "honest triple rejected by dalek or ring"));
        }
    }
    let kind = match c.corrupt {
        Corrupt::None => "honest",
        Corrupt::SigBit(_) => "sig-bit",
        Corrupt::KeyBit(_) => "key-bit",
        Corrupt::MsgBit(_) => "msg-bit",
        Corrupt::SigLen(_) => "sig-len",
        Corrupt::OtherKey => "other-key",
        Corrupt::KeyBitSpecialSig(..) => "key-bit+degenerate-signature",
        Corrupt::SPlusL => "s-plus-group-order",
    };
    ctx.class(&format!("verify:{}:{}", kind, if direct { "accepted" } else { "rejected" }));
    if !matches!(c.corrupt, Corrupt::None) {
        ctx.nontrivial(&(&pk, &msg, &sig));
    }
    Ok(())
}

#[derive(Debug, Clone, Serialize, Deserialize)]
struct Triple {
    seed: Hex,
    chunks: Vec<Hex>,
}

/// every single-bit corruption of signature (512) and key (256), message bits (all for <= 64 bytes, else 64 sampled)
fn check_triple_all_bits(ctx: &mut Ctx, t: &Triple) -> Res {
    let mk = |corrupt| VerifyCase { seed: t.seed.clone(), chunks: t.chunks.clone(), corrupt };
    check_verify(ctx, &mk(Corrupt::None))?;
    check_verify(ctx, &mk(Corrupt::OtherKey))?;
    check_verify(ctx, &mk(Corrupt::SPlusL))?;
    for b in 0..512u16 {
        check_verify(ctx, &mk(Corrupt::SigBit(b)))?;
    }
    for b in 0..256u16 {
        check_verify(ctx, &mk(Corrupt::KeyBit(b)))?;
        check_verify(ctx, &mk(Corrupt::KeyBitSpecialSig(b, (b % 4) as u8)))?;
    }
    let mlen: usize = t.chunks.iter().map(|c| c.0.len()).sum();
    if mlen > 0 {
        if mlen <= 64 {
            for b in 0..(mlen * 8) as u32 {
                check_verify(ctx, &mk(Corrupt::MsgBit(b)))?;
            }
        } else {
            for k in 0..64u32 {
                check_verify(ctx, &mk(Corrupt::MsgBit(k.wrapping_mul(2_654_435_761).wrapping_add(k) % (mlen as u32 * 8))))?;
            }
        }
    }
    for n in [0u8, 1, 32, 63, 65, 128] {
        check_verify(ctx, &mk(Corrupt::SigLen(n)))?;
    }
    Ok(())
}

pub fn run(ctx: &mut Ctx) -> Vec<Violation> {
    // every second worker process runs with logging switched on at Trace (log arguments are only evaluated then);
    // records are formatted and dropped
    if ctx.shard % 2 == 1 {
        crate::srvlab::install_logger(log::LevelFilter::Trace);
        *crate::srvlab::LOGGER.keep.lock().unwrap() = false;
        ctx.class("logging-on-at-trace");
    }
    let mut out = vec![];
    let t = ctx.tier;
    out.extend(run_prop(ctx, "history", t.pick(12_000, 240_000), 1000, history(), |ctx, c| {
        ctx.sample("history", 2, c);
        check_history(ctx, c)
    }));
    // long lives of one signer: hundreds of small messages, with large many-chunk messages placed around the
    // 128th/256th/512th signature (counters that wrap)
    let long = (seed32(), 0u8..6, proptest::collection::vec(bytes(300usize..=700), 3..=6), 0u8..4).prop_map(|(seed, which, big, jitter)| {
        let at = [127usize, 255, 256, 511, 512, 300][which as usize % 6] + jitter as usize % 2;
        let mut msgs: Vec<Vec<Hex>> = (0..at + 3).map(|k| vec![Hex(vec![k as u8; k % 5])]).collect();
        for d in 0..3usize {
            if at >= 1 + d {
                msgs[at - 1 + d] = big.clone();
            }
        }
        SignHistory { seed, msgs }
    });
    out.extend(run_prop(ctx, "long-history", t.pick(96, 960), 20, long, |ctx, c| check_history(ctx, c)));
    out.extend(run_prop(ctx, "multi-object", t.pick(20_000, 400_000), 1000, multi_ops(), |ctx, ops| {
        ctx.sample("multi-object", 1, ops);
        check_multi(ctx, ops)
    }));
    out.extend(run_prop(ctx, "triple-all-bits", t.pick(480, 8_000), 200, (seed32(), chunks()).prop_map(|(seed, chunks)| Triple { seed, chunks }), |ctx, c| {
        ctx.sample("triple", 1, c);
        check_triple_all_bits(ctx, c)
    }));
    let corrupt = prop_oneof![
        1 => Just(Corrupt::None),
        2 => any::<u16>().prop_map(Corrupt::SigBit),
        2 => any::<u16>().prop_map(Corrupt::KeyBit),
        2 => any::<u32>().prop_map(Corrupt::MsgBit),
        1 => any::<u8>().prop_map(Corrupt::SigLen),
        1 => Just(Corrupt::OtherKey),
        1 => (any::<u16>(), 0u8..4).prop_map(|(b, k)| Corrupt::KeyBitSpecialSig(b, k)),
        1 => Just(Corrupt::SPlusL),
    ];
    out.extend(run_prop(ctx, "verify", t.pick(40_000, 800_000), 1000, (seed32(), chunks(), corrupt).prop_map(|(seed, chunks, corrupt)| VerifyCase { seed, chunks, corrupt }), |ctx, c| check_verify(ctx, c)));
    out
}

pub fn replay(ctx: &mut Ctx, sub: &str, case: &Value) -> Res {
    crate::srvlab::install_logger(log::LevelFilter::Trace);
    *crate::srvlab::LOGGER.keep.lock().unwrap() = false;
    match sub {
        "history" | "long-history" => replay_case::<SignHistory, _>(ctx, case, |ctx, c| check_history(ctx, c)),
        "multi-object" => replay_case::<Vec<MultiOp>, _>(ctx, case, |ctx, c| check_multi(ctx, c)),
        "triple-all-bits" => replay_case::<Triple, _>(ctx, case, |ctx, c| check_triple_all_bits(ctx, c)),
        "verify" => replay_case::<VerifyCase, _>(ctx, case, |ctx, c| check_verify(ctx, c)),
        _ => Err(viol("bad-replay-file", format!("unknown sub {}", sub))),
    }
}
