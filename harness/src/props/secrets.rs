//! C20 — the long-term seed never appears in anything the server emits (in-process part; the real
//! binary's stdout/stderr is covered by proclab in `procs.rs`).

use crate::engine::*;
use crate::gen::*;
use crate::refcodec::hex;
use crate::refcrypto::sha512;
use crate::srvlab::*;
use super::server::{materialize, Scenario, Send};
use crate::reqgen::*;
use data_encoding::{BASE64, BASE64URL, BASE64URL_NOPAD, BASE64_NOPAD, HEXLOWER, HEXUPPER};
use proptest::prelude::*;
use serde_json::Value;
use std::collections::HashSet;

pub struct Needles {
    raw16: HashSet<[u8; 16]>,
    enc24: HashSet<[u8; 24]>,
    /// the complete hex / base64 spellings of each secret, whatever they look like (a seed of one repeated byte has
    /// no window that passes the distinctness rule); searched in text output only, never in datagrams, because 32
    /// equal bytes do occur in honest responses (the all-zero padding node of a Merkle path)
    full_text: Vec<Vec<u8>>,
    pub count: usize,
}

/// secret material derived from a seed: the seed, SHA-512(seed) halves (unclamped scalar, signing prefix), clamped scalar
pub fn secrets_of(seed: &[u8]) -> Vec<(&'static str, Vec<u8>)> {
    let h = sha512(&[seed]);
    let mut clamped = h[..32].to_vec();
    clamped[0] &= 248;
    clamped[31] &= 127;
    clamped[31] |= 64;
    vec![("seed", seed.to_vec()), ("scalar-unclamped", h[..32].to_vec()), ("scalar-clamped", clamped), ("signing-prefix", h[32..].to_vec())]
}

impl Needles {
    pub fn new(seed: &[u8]) -> Needles {
        let mut raw16 = HashSet::new();
        let mut enc24 = HashSet::new();
        for (_, s) in secrets_of(seed) {
            for w in s.windows(16) {
                // windows of (near-)constant bytes (degenerate seeds such as all-zero) also occur in honest
                // traffic (MINT/MAXT, padding); only windows with >= 6 distinct byte values are needles
                if w.iter().collect::<HashSet<_>>().len() >= 6 {
                    raw16.insert(<[u8; 16]>::try_from(w).unwrap());
                }
            }
            for e in [HEXLOWER.encode(&s), HEXUPPER.encode(&s), BASE64.encode(&s), BASE64_NOPAD.encode(&s), BASE64URL.encode(&s), BASE64URL_NOPAD.encode(&s)] {
                for w in e.as_bytes().windows(24) {
                    if w.iter().collect::<HashSet<_>>().len() >= 6 {
                        enc24.insert(<[u8; 24]>::try_from(w).unwrap());
                    }
                }
            }
        }
        let mut full_text = vec![];
        for (_, s) in secrets_of(seed) {
            for e in [HEXLOWER.encode(&s), HEXUPPER.encode(&s), BASE64.encode(&s), BASE64_NOPAD.encode(&s), BASE64URL.encode(&s), BASE64URL_NOPAD.encode(&s)] {
                full_text.push(e.into_bytes());
            }
            // Debug rendering of a byte slice: [1, 2, 3, ...]
            full_text.push(format!("{:?}", s).into_bytes());
        }
        let count = raw16.len() + enc24.len() + full_text.len();
        Needles { raw16, enc24, full_text, count }
    }

    /// like `find`, for text the server prints (log records, stdout/stderr): also the complete spellings
    pub fn find_text(&self, hay: &[u8]) -> Option<String> {
        if let Some(w) = self.find(hay) {
            return Some(w);
        }
        for n in &self.full_text {
            if hay.len() >= n.len() && hay.windows(n.len()).any(|w| w == n.as_slice()) {
                return Some(format!("the complete spelling {:?} of a secret", String::from_utf8_lossy(n)));
            }
        }
        None
    }

    /// first needle window found in `hay`, if any
    pub fn find(&self, hay: &[u8]) -> Option<String> {
        for w in hay.windows(16) {
            if self.raw16.contains(w) {
                return Some(format!("raw 16-byte window {}", hex(w)));
            }
        }
        for w in hay.windows(24) {
            if self.enc24.contains(w) {
                return Some(format!("encoded 24-char window {:?}", String::from_utf8_lossy(w)));
            }
        }
        None
    }
}

fn check_leak(ctx: &mut Ctx, sc: &Scenario) -> Res {
    let needles = Needles::new(&sc.seed.0);
    let mut cfg = LabCfg { seed: sc.seed.0.clone(), batch_size: sc.batch_size, fault: sc.fault, client_stats: false, ..Default::default() };
    if sc.interval_ms > 0 {
        cfg.status_interval = std::time::Duration::from_millis(sc.interval_ms as u64);
    }
    let _ = take_logs();
    let mut lab = match Lab::new(cfg, 16) {
        Ok(l) => l,
        Err(e) => return ctx.fail("server-new-failed", e),
    };
    // what an embedding program may print about the server object
    let mut extra: Vec<String> = vec![lab.server.get_public_key().to_string(), lab.server.thread_name().to_string()];
    let mut datagrams = 0usize;
    let mut kinds = (false, false);
    let mut sentinel_nonce_prefixes = vec![];
    for step in &sc.steps {
        if sc.interval_ms > 0 {
            // a few status intervals of uptime before the traffic (whatever the server does periodically gets to happen)
            let end = std::time::Instant::now() + std::time::Duration::from_millis(3 * sc.interval_ms as u64);
            while std::time::Instant::now() < end {
                if let Err(p) = lab.idle_pump(1) {
                    return ctx.fail(format!("process-events-panic|{}", panic_site(&p)), p);
                }
            }
        }
        let sent = materialize(&lab, step, 16);
        for s in &sent {
            if s.standard.is_some() {
                kinds.0 = true
            } else {
                kinds.1 = true
            }
        }
        let sends: Vec<(usize, Vec<u8>)> = sent.iter().map(|s| (s.sock, s.bytes.clone())).collect();
        let res = match lab.step(&sends, 0) {
            Ok(r) => r,
            Err(StepErr::Panic(p)) => return ctx.fail(format!("process-events-panic|{}", panic_site(&p)), p),
            Err(StepErr::Wedged(m)) => return ctx.fail("wedged", m),
        };
        if let crate::refproto::ReqClass::WellFormed(i) = crate::refproto::classify_request(&res.sentinel_request) {
            sentinel_nonce_prefixes.push(hex(&i.nonce[..4]));
        }
        for d in res.replies.iter().flatten().chain(res.sentinel_replies.iter()) {
            ctx.eval();
            datagrams += 1;
            if let Some(w) = needles.find(d) {
                return ctx.fail("secret-in-datagram", format!("a datagram sent by the server contains {} (seed {})", w, hex(&sc.seed.0)));
            }
        }
    }
    extra.push(format!("{}", lab.server.get_public_key()));
    let logs = take_logs();
    for rec in logs.iter().chain(extra.iter()) {
        ctx.eval();
        if let Some(w) = needles.find_text(rec.as_bytes()) {
            return ctx.fail("secret-in-log", format!("log record {:?} contains {}", rec, w));
        }
    }
    // positive control: at Debug/Trace the log does contain the sentinel's nonce prefix (the haystack is alive)
    let lvl = log::max_level();
    if lvl >= log::LevelFilter::Debug && sc.fault == 0 {
        let found = sentinel_nonce_prefixes.iter().any(|p| logs.iter().any(|l| l.contains(p.as_str())));
        if !found {
            return Err(viol("positive-control-failed", format!("level {:?}: no log record mentions a sentinel nonce prefix; {} records captured", lvl, logs.len())));
        }
    }
    ctx.class(&format!("c20:level={:?}:{}:records={}", lvl, if kinds.0 && kinds.1 { "valid+invalid" } else { "one-kind" }, if logs.is_empty() { "0" } else { ">0" }));
    if lvl >= log::LevelFilter::Debug && kinds.0 && kinds.1 {
        ctx.nontrivial(&(&sc.seed.0, format!("{:?}", lvl), datagrams));
    }
    Ok(())
}

fn scenario() -> impl Strategy<Value = Scenario> {
    let dg = prop_oneof![3 => std_req().prop_map(Dgram::Std), 2 => any_dgram()];
    let step = vec_of((0u8..16, dg).prop_map(|(sock, d)| Send { sock, d }).boxed(), 1usize..=12);
    (seed32(), prop::sample::select(vec![1u8, 2, 8, 64]), prop_oneof![2 => Just(0u8), 1 => 1u8..=50], proptest::collection::vec(step, 1..=3)).prop_map(|(seed, batch_size, fault, steps)| Scenario { health_burst: 0, interval_ms: if seed.0[31] % 12 == 0 { 20 } else { 0 }, ipv6: false, seed, batch_size, fault, stats: false, steps })
}

/// configuration loading in-process (file and ENV), valid and invalid variants, under the capturing logger
#[derive(Debug, Clone, serde::Serialize, serde::Deserialize)]
pub struct ConfigLeak {
    /// rewrite the seed so that its hex form consists of decimal digits only (a YAML number)
    #[serde(default)]
    pub digits: bool,
    pub seed: Hex,
    pub via_env: bool,
    /// index into CONFIG_VARIANTS
    pub variant: u8,
    /// 0 = one load. 1 = the configuration keeps per-client statistics in a persistence directory and is loaded twice
    /// on the SAME directory, first with another seed, then with this one (a restart after a key change). 2 = file
    /// source while ROUGHENOUGH_SEED (another seed) and other ROUGHENOUGH_* variables are present in the environment
    #[serde(default)]
    pub twist: u8,
}

/// (name, extra settings, seed override: None = the 64-hex seed; Some(n) = first n hex chars of it)
pub const CONFIG_VARIANTS: [(&str, &[(&str, &str)], Option<usize>); 28] = [
    ("valid", &[], None),
    ("valid-all-options", &[("batch_size", "16"), ("status_interval", "30"), ("fault_percentage", "5"), ("num_workers", "2")], None),
    ("batch-size-300", &[("batch_size", "300")], None),
    ("batch-size-0", &[("batch_size", "0")], None),
    ("fault-77", &[("fault_percentage", "77")], None),
    ("workers-0", &[("num_workers", "0")], None),
    ("client-stats-no-dir", &[("client_stats", "on")], None),
    ("client-stats-bad-dir", &[("client_stats", "on"), ("persistence_directory", "/nonexistent/dir")], None),
    ("kms-aws-with-plaintext-seed", &[("kms_protection", "arn:aws:kms:us-east-2:111122223333:key/1234abcd-12ab-34cd-56ef-1234567890ab")], None),
    ("kms-gcp-with-plaintext-seed", &[("kms_protection", "projects/p/locations/global/keyRings/r/cryptoKeys/k")], None),
    ("seed-too-short", &[], Some(60)),
    ("seed-odd-length", &[], Some(63)),
    ("bad-interface", &[("interface", "not-an-address")], None),
    ("port-0", &[("port", "0")], None),
    // every integer setting: not a number / far too large (parse-error paths of both loaders)
    ("port-nonnumeric", &[("port", "abc")], None),
    ("port-huge", &[("port", "99999999999")], None),
    ("batch-size-nonnumeric", &[("batch_size", "x1")], None),
    ("batch-size-huge", &[("batch_size", "99999999999")], None),
    ("status-interval-nonnumeric", &[("status_interval", "daily")], None),
    ("status-interval-86400", &[("status_interval", "86400")], None),
    ("health-port-nonnumeric", &[("health_check_port", "http")], None),
    ("health-port-huge", &[("health_check_port", "99999999999")], None),
    ("fault-nonnumeric", &[("fault_percentage", "5%")], None),
    ("fault-huge", &[("fault_percentage", "99999999999")], None),
    ("workers-nonnumeric", &[("num_workers", "many")], None),
    ("workers-negative", &[("num_workers", "-4")], None),
    ("kms-unknown", &[("kms_protection", "frobble")], None),
    ("client-stats-weird", &[("client_stats", "maybe")], None),
];

/// every nibble folded into 0..=9: the hex text of the seed is then all decimal digits
pub fn digit_only(seed: &[u8]) -> Vec<u8> {
    seed.iter().map(|b| ((b >> 4) % 10) << 4 | ((b & 15) % 10)).collect()
}

fn check_config_leak(ctx: &mut Ctx, c0: &ConfigLeak) -> Res {
    ctx.eval();
    let mut c = c0.clone();
    if c.digits {
        c.seed = Hex(digit_only(&c.seed.0));
        // keep the value out of i64 range (a YAML float, not an integer with lost leading zeros)
        c.seed.0[0] |= 0x10;
    }
    let c = &c;
    let needles = Needles::new(&c.seed.0);
    // the other secret of the twists: a second seed, never to be printed either
    let mut other_seed = sha512(&[&b"c20-other-seed"[..], &c.seed.0[..]])[..32].to_vec();
    other_seed[0] |= 0xa0;
    let other_needles = Needles::new(&other_seed);
    let twist = c.twist % 3;
    let (vname, extra, seed_cut) = CONFIG_VARIANTS[c.variant as usize % CONFIG_VARIANTS.len()];
    let _ = take_logs();
    let dir = crate::proclab::scratch_dir("c20cfg");
    let mut first_life: Option<String> = None;
    if twist == 1 {
        // first life of the server on this directory, under the other seed (whatever it emits is checked as well)
        let mut first = c.clone();
        first.seed = Hex(other_seed.clone());
        first.twist = 0;
        first.digits = false;
        first_life = Some(load_once(&first, &dir, true, &[]));
    }
    let env_noise: Vec<(String, String)> = if twist == 2 && !c.via_env {
        vec![("SEED".into(), hex(&other_seed)), ("PORT".into(), "8687".into()), ("BATCH_SIZE".into(), "7".into())]
    } else {
        vec![]
    };
    let mut emitted: Vec<String> = vec![load_once(c, &dir, twist == 1, &env_noise)];
    emitted.extend(first_life);
    let _ = std::fs::remove_dir_all(&dir);
    // what an embedding program may print about the key objects built from this seed
    if let Ok(strings) = no_unwind(|| {
        let ltk = roughenough::key::LongTermKey::new(&c.seed.0);
        let signer = roughenough::sign::MsgSigner::from_seed(&c.seed.0);
        vec![format!("{}", ltk), format!("{}", signer), format!("{:?}", signer)]
    }) {
        emitted.extend(strings);
    }
    let logs = take_logs();
    for rec in logs.iter().chain(emitted.iter()) {
        ctx.eval();
        if let Some(w) = needles.find_text(rec.as_bytes()).or_else(|| if twist != 0 { other_needles.find_text(rec.as_bytes()) } else { None }) {
            return ctx.fail(
                format!("secret-in-log|config|{}", vname),
                format!("configuration variant {:?} ({} source, log level {:?}{}): record {:?} contains {}", vname, if c.via_env { "ENV" } else { "file" }, log::max_level(), ["", ", second start on the same persistence directory after a seed change", ", ROUGHENOUGH_* variables present in the environment"][twist as usize], rec, w),
            );
        }
    }
    ctx.class(&format!("c20:config:{}:{}:level={:?}{}", if c.via_env { "env" } else { "file" }, vname, log::max_level(), ["", ":restart-same-dir-new-seed", ":file+env-noise"][twist as usize]));
    ctx.nontrivial(&(&c.seed.0, c.via_env, c.variant % CONFIG_VARIANTS.len() as u8, format!("{:?}", log::max_level()), twist));
    let _ = (extra, seed_cut);
    Ok(())
}

/// load the configuration once (file or ENV), validate it, build a worker from it; returns what was emitted besides
/// the log (result text or panic message)
fn load_once(c: &ConfigLeak, dir: &std::path::Path, persist: bool, env_noise: &[(String, String)]) -> String {
    use roughenough::config::{is_valid_config, make_config};
    let (_vname, extra, seed_cut) = CONFIG_VARIANTS[c.variant as usize % CONFIG_VARIANTS.len()];
    let seed_hex = hex(&c.seed.0);
    let seed_txt = match seed_cut {
        Some(n) => seed_hex[..n].to_string(),
        None => seed_hex.clone(),
    };
    let mut settings: Vec<(String, String)> = vec![("interface".into(), "127.0.0.1".into()), ("port".into(), "8686".into()), ("seed".into(), seed_txt)];
    if persist {
        let pd = dir.join("stats");
        let _ = std::fs::create_dir_all(&pd);
        settings.push(("client_stats".into(), "on".into()));
        settings.push(("persistence_directory".into(), pd.display().to_string()));
    }
    for (k, v) in extra {
        settings.retain(|x| x.0 != *k);
        settings.push((k.to_string(), v.to_string()));
    }
    for (k, v) in env_noise {
        std::env::set_var(format!("ROUGHENOUGH_{}", k), v);
    }
    let arg = if c.via_env {
        for (k, v) in &settings {
            std::env::set_var(format!("ROUGHENOUGH_{}", k.to_uppercase()), v);
        }
        "ENV".to_string()
    } else {
        let path = dir.join("c.cfg");
        let body: String = settings.iter().map(|(k, v)| format!("{}: {}\n", k, v)).collect();
        std::fs::write(&path, body).unwrap();
        path.display().to_string()
    };
    let r = no_unwind(|| {
        let cfg = make_config(&arg);
        match cfg {
            Ok(cfg) => {
                let valid = is_valid_config(cfg.as_ref());
                if valid {
                    // a worker is created from this configuration, like polling_loop does
                    let sock = mio::net::UdpSocket::bind(&"127.0.0.1:0".parse().unwrap()).unwrap();
                    let q = std::sync::Arc::new(roughenough::stats::StatsQueue::new(4));
                    let server = roughenough::server::Server::new(cfg.as_ref(), sock, q);
                    format!("started {} {}", server.get_public_key(), server.thread_name())
                } else {
                    "invalid".to_string()
                }
            }
            Err(e) => format!("error {:?}", e),
        }
    });
    if c.via_env {
        for (k, _) in &settings {
            std::env::remove_var(format!("ROUGHENOUGH_{}", k.to_uppercase()));
        }
    }
    for (k, _) in env_noise {
        std::env::remove_var(format!("ROUGHENOUGH_{}", k));
    }
    match r {
        Ok(s) => s,
        // a panic message goes to stderr: it is emitted too
        Err(p) => p,
    }
}

pub fn run(ctx: &mut Ctx) -> Vec<Violation> {
    let level = level_from_index(ctx.shard + 4); // shards 0,1 -> Debug, Trace ... all six levels over the shards
    install_logger(level);
    let t = ctx.tier;
    let mut out = vec![];
    out.extend(run_prop(ctx, &format!("inproc-{:?}", level), t.pick(12_000, 96_000), 300, scenario(), |ctx, sc| {
        ctx.sample("inproc", 1, &(sc.seed.clone(), sc.steps.iter().map(|s| s.len()).collect::<Vec<_>>()));
        check_leak(ctx, sc)
    }));
    // configuration loading (file / ENV, valid and invalid variants) at this worker's log level
    let cl = (seed32().prop_map(|mut h| {
        h.0[0] |= 0xa0; // keep the YAML scalar a string
        h
    }), any::<bool>(), 0u8..CONFIG_VARIANTS.len() as u8, prop_oneof![3 => Just(0u8), 1 => Just(1u8), 1 => Just(2u8)])
        .prop_map(|(seed, via_env, variant, twist)| ConfigLeak { digits: false, seed, via_env, variant, twist });
    out.extend(run_prop(ctx, &format!("config-{:?}", level), t.pick(4_000, 40_000), 100, cl, |ctx, c| {
        ctx.sample("config", 2, c);
        check_config_leak(ctx, c)?;
        // the same configuration with a digit-only seed
        let mut d = c.clone();
        d.digits = true;
        check_config_leak(ctx, &d)
    }));
    if ctx.shard == 0 {
        ctx.note(format!("needle windows per seed: {}", Needles::new(&[1u8; 32]).count));
    }
    out.extend(super::procs::c20_process_part(ctx));
    out
}

pub fn replay(ctx: &mut Ctx, sub: &str, case: &Value) -> Res {
    if let Some(l) = sub.strip_prefix("inproc-") {
        let lvl = match l {
            "Off" => log::LevelFilter::Off,
            "Error" => log::LevelFilter::Error,
            "Warn" => log::LevelFilter::Warn,
            "Info" => log::LevelFilter::Info,
            "Debug" => log::LevelFilter::Debug,
            _ => log::LevelFilter::Trace,
        };
        install_logger(lvl);
        return replay_case::<Scenario, _>(ctx, case, |ctx, sc| check_leak(ctx, sc));
    }
    if let Some(l) = sub.strip_prefix("config-") {
        let lvl = match l {
            "Off" => log::LevelFilter::Off,
            "Error" => log::LevelFilter::Error,
            "Warn" => log::LevelFilter::Warn,
            "Info" => log::LevelFilter::Info,
            "Debug" => log::LevelFilter::Debug,
            _ => log::LevelFilter::Trace,
        };
        install_logger(lvl);
        return replay_case::<ConfigLeak, _>(ctx, case, |ctx, c| check_config_leak(ctx, c));
    }
    super::procs::c20_replay(ctx, sub, case)
}

#[allow(dead_code)]
fn unused(_: Hex) {}
