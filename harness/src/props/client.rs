//! C01 (client never reports an unauthentic response as verified) and
//! C03 (client accepts every honest response and prints its midpoint), driving the real client binary.

use crate::clientlab::*;
use crate::engine::*;
use crate::gen::*;
use crate::refcodec::{self as rc, hex, Msg};
use crate::refcrypto::*;
use crate::refproto::*;
use crate::srvlab::{install_logger, Lab, LabCfg, StepErr};
use data_encoding::BASE64;
use proptest::prelude::*;
use serde::{Deserialize, Serialize};
use serde_json::Value;
use std::cell::RefCell;
use std::collections::HashSet;

/// zones for the local-time path of the client: POSIX rules with daylight saving (no tzdata needed) and named zones
const C01_ZONES: [&str; 4] = ["EST5EDT,M3.2.0,M11.1.0", "CET-1CEST,M3.5.0,M10.5.0/3", "Europe/Berlin", "XXX3"];
/// instants (seconds) at which those zones repeat an hour (clocks go back): 2025-11-02T06:00Z (US), 2025-10-26T01:00Z (EU)
const DST_FOLDS: [u64; 2] = [1_762_063_200, 1_761_440_400];

/// tags that do not belong at the top level of a response (they are signed inside SREP / DELE)
const EXTRA_TAGS: [u32; 8] = [rc::MIDP, rc::RADI, rc::ROOT, rc::PUBK, rc::MINT, rc::MAXT, rc::VER, rc::DELE];

const LT_SEED: [u8; 32] = [0x21; 32];
const ONLINE_SEED: [u8; 32] = [0x37; 32];
const EVIL_SEED: [u8; 32] = [0x66; 32];

thread_local! {
    /// every nonce the client ever used in this worker process (freshness across runs)
    static NONCES: RefCell<HashSet<Vec<u8>>> = RefCell::new(HashSet::new());
    /// genuine responses recorded from earlier client processes: (ietf, request, response)
    static RECORDED: RefCell<Vec<(bool, Vec<u8>, Vec<u8>)>> = RefCell::new(Vec::new());
}

#[derive(Debug, Clone, Copy, Serialize, Deserialize, PartialEq, Eq, Hash)]
pub enum Comp {
    Sig,
    Path,
    Indx,
    Midp,
    Radi,
    Root,
    SrepVer,
    CertSig,
    Pubk,
    Mint,
    Maxt,
    Nonc,
}
const COMPS: [Comp; 12] = [Comp::Sig, Comp::Path, Comp::Indx, Comp::Midp, Comp::Radi, Comp::Root, Comp::SrepVer, Comp::CertSig, Comp::Pubk, Comp::Mint, Comp::Maxt, Comp::Nonc];

#[derive(Debug, Clone, Serialize, Deserialize, PartialEq, Eq, Hash)]
pub enum Edit {
    Bit(u16),
    Byte(u16, u8),
    Random(u8),
    Zero,
    Ones,
}

#[derive(Debug, Clone, Serialize, Deserialize, PartialEq, Eq, Hash)]
pub enum Forgery {
    Honest,
    Region(Comp, Edit),
    PathAdd(u8),
    PathRemove(u8),
    PathSwap(u8, u8),
    IndexOther(u8),
    /// SREP field edited and correctly re-signed by the online key, but the certificate comes from a different long-term key
    ResignedByOtherLongTerm(Comp, Edit),
    /// whole response produced by a different long-term + online key
    WholeOtherKey,
    /// re-signed by the genuine online key after editing SREP (needs the online secret: a compromised online key is out of scope,
    /// but a *self-made* online key certified by the wrong long-term key is covered above); here: SREP edit + online re-sign only
    WindowBelow,
    WindowAbove,
    /// CERT signed under the other protocol's delegation context (by the right long-term key)
    CrossContextCert,
    /// response shaped for the other protocol (framing and/or SREP layout swapped)
    CrossProtocolShape(u8),
    /// genuine response to another request of the same run
    CrossRequest(u8),
    /// genuine response recorded from an earlier client process
    ReplayPrevious(u8),
    /// SREP component edited and RE-SIGNED BY THE GENUINE ONLINE KEY (a faulty server, or a delegated key in the wrong
    /// hands): the signature chain is valid; whether the response is authentic for this request is up to the Merkle proof/window
    ResignedGenuine(Comp, Edit),
    /// SREP.ROOT cut to this many bytes and re-signed by the genuine online key
    RootLen(u8),
    /// a genuinely signed delegation whose window is EMPTY (MINT > MAXT) with the midpoint above MINT (0) or below
    /// MAXT (1): no midpoint lies in an empty window
    EmptyWindow(u8),
    /// the certificate's signature replaced by the encoding of (neutral element, 0) — which verifies under the neutral
    /// element as "public key" for every message
    NeutralCertSig,
    /// everything an honest server of the OTHER protocol would sign for this request — SREP laid out like the other
    /// protocol and re-signed by the genuine online key, certificate signed by the genuine long-term key under the OTHER
    /// delegation context — around a Merkle proof that is correct for THIS protocol
    OtherProtocolSignatures,
    /// an extra, unsigned top-level field (index into EXTRA_TAGS) with a generated value is added to a genuine response
    ExtraTopLevelTag(u8, Hex),
    Truncate(u16),
    Extend(Hex),
    ByteMuts(Vec<(u16, u8)>),
    ByteAt(u16, u8),
    RandomDatagram(Hex),
}

#[derive(Debug, Clone, Serialize, Deserialize)]
pub struct Plan {
    pub ietf: bool,
    pub key_b64: bool,
    pub nreq: u8,
    pub mode: u8,
    /// batch size the honest response is signed in, and the position of the client's request in it
    pub batch: u8,
    pub index: u8,
    pub midp: u64,
    /// which of the nreq requests receives the forgery (others receive honest responses)
    pub target: u8,
    pub forgery: Forgery,
    /// 0 = UTC output (-z); 1.. = local-time output (no -z) under one of C01_ZONES
    #[serde(default)]
    pub zone: u8,
    /// bit set of further client options (clientlab::ClientArgs::opts)
    #[serde(default)]
    pub opts: u8,
    /// 0 = the genuine long-term key is pinned. Otherwise the `-k` value is NOT a public key at all (1: 32 bytes that
    /// are not a curve point, 2: 31 bytes, 3: 33 bytes, 4: the genuine key with its sign bit chosen so that it does not
    /// decode, if that exists, else as 1); nothing is authentic under such a key
    #[serde(default)]
    pub bad_key: u8,
}

/// a `-k` value that is no Ed25519 public key
fn bad_key_bytes(kind: u8, genuine: &[u8]) -> Vec<u8> {
    use ed25519_dalek::VerifyingKey;
    let undecodable = |b: &[u8]| <[u8; 32]>::try_from(b).map(|a| VerifyingKey::from_bytes(&a).is_err()).unwrap_or(true);
    match kind % 5 {
        2 => genuine[..31].to_vec(),
        3 => {
            let mut v = genuine.to_vec();
            v.push(0);
            v
        }
        k => {
            // first candidate that does not decompress: the genuine key with low bits changed (4), else hash-derived
            let mut n = 0u32;
            loop {
                let cand: Vec<u8> = if k == 4 {
                    let mut g = genuine.to_vec();
                    g[0] ^= (n as u8).wrapping_add(1);
                    g
                } else {
                    sha512(&[b"not-a-point", &n.to_le_bytes()])[..32].to_vec()
                };
                if undecodable(&cand) {
                    return cand;
                }
                n += 1;
            }
        }
    }
}

fn proto(ietf: bool) -> Proto {
    if ietf {
        Proto::Ietf
    } else {
        Proto::Classic
    }
}

fn apply_edit(v: &mut Vec<u8>, e: &Edit) {
    if v.is_empty() {
        v.push(0x01);
        return;
    }
    match e {
        Edit::Bit(b) => {
            let n = v.len() * 8;
            let p = idx(*b, n);
            v[p / 8] ^= 1 << (p % 8);
        }
        Edit::Byte(p, x) => {
            let p = idx(*p, v.len());
            v[p] ^= (*x) | 1;
        }
        Edit::Random(s) => {
            let r = sha512(&[b"rnd", &[*s], &(v.len() as u32).to_le_bytes()]);
            for (i, b) in v.iter_mut().enumerate() {
                *b = r[i % 64] ^ (i / 64) as u8;
            }
        }
        Edit::Zero => v.iter_mut().for_each(|b| *b = 0),
        Edit::Ones => v.iter_mut().for_each(|b| *b = 0xff),
    }
}

fn edit_comp(p: &mut RespParts, c: Comp, e: &Edit) {
    let edit_field = |m: &mut Msg, t: u32, e: &Edit| {
        if let Some(v) = m.get(t) {
            let mut v = v.to_vec();
            apply_edit(&mut v, e);
            m.set(t, v);
        }
    };
    match c {
        Comp::Sig => apply_edit(&mut p.sig, e),
        Comp::Path => apply_edit(&mut p.path, e),
        Comp::Indx => {
            let mut v = p.indx.to_le_bytes().to_vec();
            apply_edit(&mut v, e);
            p.indx = u32::from_le_bytes([v[0], v[1], v[2], v[3]]);
        }
        Comp::Midp => edit_field(&mut p.srep, rc::MIDP, e),
        Comp::Radi => edit_field(&mut p.srep, rc::RADI, e),
        Comp::Root => edit_field(&mut p.srep, rc::ROOT, e),
        Comp::SrepVer => edit_field(&mut p.srep, rc::VER, e),
        Comp::CertSig => apply_edit(&mut p.cert_sig, e),
        Comp::Pubk => edit_field(&mut p.dele, rc::PUBK, e),
        Comp::Mint => edit_field(&mut p.dele, rc::MINT, e),
        Comp::Maxt => edit_field(&mut p.dele, rc::MAXT, e),
        Comp::Nonc => apply_edit(&mut p.nonc, e),
    }
}

/// honest batch around `request` at position `index` of `batch`
fn honest_parts(resp: &Responder, pr: Proto, request: &[u8], batch: u8, index: u8, midp: u64) -> RespParts {
    let batch = batch.max(1) as usize;
    let index = (index as usize) % batch;
    let mut reqs = vec![];
    for k in 0..batch {
        if k == index {
            reqs.push(request.to_vec());
        } else {
            reqs.push(filler_request(pr, k as u32 + 1000 * batch as u32));
        }
    }
    resp.respond_batch(pr, &reqs, midp).swap_remove(index)
}

/// Build the datagram delivered for request `i` of the run.
fn forge(plan: &Plan, i: usize, requests: &[Vec<u8>]) -> Vec<u8> {
    let pr = proto(plan.ietf);
    let good = Responder::new(&LT_SEED, &ONLINE_SEED);
    let request = &requests[i];
    let mut parts = honest_parts(&good, pr, request, plan.batch, plan.index, plan.midp);
    if i != plan.target as usize % requests.len() {
        return parts.assemble();
    }
    match &plan.forgery {
        Forgery::Honest => parts.assemble(),
        Forgery::Region(c, e) => {
            edit_comp(&mut parts, *c, e);
            parts.assemble()
        }
        Forgery::PathAdd(pos) => {
            let w = pr.tree().width;
            let n = parts.path.len() / w;
            let at = (*pos as usize % (n + 1)) * w;
            let ins = sha512(&[b"ins"])[..w].to_vec();
            parts.path.splice(at..at, ins);
            parts.assemble()
        }
        Forgery::PathRemove(pos) => {
            let w = pr.tree().width;
            let n = parts.path.len() / w;
            if n > 0 {
                let at = (*pos as usize % n) * w;
                parts.path.drain(at..at + w);
            } else {
                parts.indx ^= 1;
            }
            parts.assemble()
        }
        Forgery::PathSwap(a, b) => {
            let w = pr.tree().width;
            let n = parts.path.len() / w;
            if n >= 2 {
                let (a, mut b) = (*a as usize % n, *b as usize % n);
                if a == b {
                    b = (a + 1) % n;
                }
                for k in 0..w {
                    parts.path.swap(a * w + k, b * w + k);
                }
            } else {
                parts.indx ^= 1;
            }
            parts.assemble()
        }
        Forgery::IndexOther(j) => {
            let batch = plan.batch.max(1) as u32;
            let cur = parts.indx;
            let mut other = *j as u32 % batch.max(2);
            if other == cur {
                other = (cur + 1) % batch.max(2);
            }
            parts.indx = other;
            parts.assemble()
        }
        Forgery::ResignedByOtherLongTerm(c, e) => {
            // attacker makes up an online key, edits the signed response, signs everything consistently with keys of his own
            let evil = Responder::new(&EVIL_SEED, &[0x67; 32]);
            let mut p = honest_parts(&evil, pr, request, plan.batch, plan.index, plan.midp);
            if matches!(c, Comp::Midp | Comp::Radi) {
                edit_comp(&mut p, *c, e);
                p.resign_srep(&evil.online);
            }
            p.assemble()
        }
        Forgery::WholeOtherKey => {
            let evil = Responder::new(&EVIL_SEED, &[0x68; 32]);
            honest_parts(&evil, pr, request, plan.batch, plan.index, plan.midp).assemble()
        }
        Forgery::WindowBelow => {
            // correctly signed chain whose delegation window starts after the midpoint
            let mut r = Responder::new(&LT_SEED, &ONLINE_SEED);
            r.mint = plan.midp.saturating_add(1).max(1);
            r.maxt = u64::MAX;
            let midp = if plan.midp == u64::MAX { plan.midp - 1 } else { plan.midp };
            honest_parts(&r, pr, request, plan.batch, plan.index, midp).assemble()
        }
        Forgery::WindowAbove => {
            let mut r = Responder::new(&LT_SEED, &ONLINE_SEED);
            r.mint = 0;
            r.maxt = plan.midp.saturating_sub(1);
            let midp = plan.midp.max(1);
            honest_parts(&r, pr, request, plan.batch, plan.index, midp).assemble()
        }
        Forgery::EmptyWindow(k) => {
            let mut r = Responder::new(&LT_SEED, &ONLINE_SEED);
            let midp = plan.midp.clamp(1_000, u64::MAX - 1_000);
            if k % 2 == 0 {
                r.mint = midp - 5;
                r.maxt = midp - 10;
            } else {
                r.mint = midp + 10;
                r.maxt = midp + 5;
            }
            honest_parts(&r, pr, request, plan.batch, plan.index, midp).assemble()
        }
        Forgery::CrossContextCert => {
            parts.resign_dele(&good.long_term, pr.other().dele_ctx());
            parts.assemble()
        }
        Forgery::CrossProtocolShape(k) => {
            // honest response of the *other* protocol's shape for this request
            let other = pr.other();
            match k % 3 {
                0 => {
                    // other protocol's framing around this protocol's message
                    let m = parts.message();
                    match other {
                        Proto::Classic => m.encode(),
                        Proto::Ietf => m.encode_framed(),
                    }
                }
                1 => {
                    // SREP laid out like the other protocol (VER/VERS added or dropped), re-signed by the genuine online key
                    if other == Proto::Ietf {
                        parts.srep.set(rc::VER, VER_DRAFT13.to_le_bytes().to_vec());
                    } else {
                        parts.srep.remove(rc::VER);
                        parts.srep.remove(rc::VERS);
                    }
                    // not re-signed: the attacker does not hold the online key
                    parts.assemble()
                }
                _ => {
                    // tree built with the other protocol's leaf/width rules
                    let p2 = honest_parts(&good, other, request, plan.batch, plan.index, plan.midp);
                    let mut p = p2;
                    p.proto = pr;
                    p.assemble()
                }
            }
        }
        Forgery::CrossRequest(j) => {
            if requests.len() >= 2 {
                let mut other = *j as usize % requests.len();
                if other == i {
                    other = (i + 1) % requests.len();
                }
                honest_parts(&good, pr, &requests[other], plan.batch, plan.index, plan.midp).assemble()
            } else {
                // single-request run: a response for a request the client never sent
                honest_parts(&good, pr, &filler_request(pr, 424_242), plan.batch, plan.index, plan.midp).assemble()
            }
        }
        Forgery::ReplayPrevious(k) => {
            let rec = RECORDED.with(|r| {
                let r = r.borrow();
                let cands: Vec<&(bool, Vec<u8>, Vec<u8>)> = r.iter().filter(|x| x.0 == plan.ietf).collect();
                if cands.is_empty() {
                    None
                } else {
                    Some(cands[*k as usize % cands.len()].2.clone())
                }
            });
            match rec {
                Some(r) => r,
                None => honest_parts(&good, pr, &filler_request(pr, 77), plan.batch, plan.index, plan.midp).assemble(),
            }
        }
        Forgery::ResignedGenuine(c, e) => {
            edit_comp(&mut parts, *c, e);
            parts.resign_srep(&good.online);
            parts.assemble()
        }
        Forgery::RootLen(n) => {
            if let Some(r) = parts.srep.get(rc::ROOT) {
                let mut r = r.to_vec();
                r.truncate(*n as usize & !3);
                parts.srep.set(rc::ROOT, r);
            }
            parts.resign_srep(&good.online);
            parts.assemble()
        }
        Forgery::NeutralCertSig => {
            parts.cert_sig = vec![0u8; 64];
            parts.cert_sig[0] = 1;
            parts.assemble()
        }
        Forgery::OtherProtocolSignatures => {
            if pr == Proto::Classic {
                parts.srep.set(rc::VER, VER_DRAFT13.to_le_bytes().to_vec());
                let mut v = VER_CLASSIC.to_le_bytes().to_vec();
                v.extend_from_slice(&VER_DRAFT13.to_le_bytes());
                parts.srep.set(rc::VERS, v);
            } else {
                parts.srep.remove(rc::VER);
                parts.srep.remove(rc::VERS);
            }
            parts.resign_srep(&good.online);
            parts.resign_dele(&good.long_term, pr.other().dele_ctx());
            parts.assemble()
        }
        Forgery::ExtraTopLevelTag(t, v) => {
            let tag = EXTRA_TAGS[*t as usize % EXTRA_TAGS.len()];
            let mut val = v.0.clone();
            // plausible widths: 8 bytes for times, 4 for RADI/VER, 32/64 otherwise
            let want = match tag {
                x if x == rc::MIDP || x == rc::MINT || x == rc::MAXT => 8,
                x if x == rc::RADI || x == rc::VER => 4,
                x if x == rc::PUBK => 32,
                _ => 64,
            };
            val.resize(want, 0x01);
            let mut m = parts.message();
            m.set(tag, val);
            match pr {
                Proto::Classic => m.encode(),
                Proto::Ietf => m.encode_framed(),
            }
        }
        Forgery::Truncate(n) => {
            let mut b = parts.assemble();
            let keep = idx(*n, b.len());
            b.truncate(keep);
            b
        }
        Forgery::Extend(h) => {
            let mut b = parts.assemble();
            b.extend_from_slice(&h.0);
            b
        }
        Forgery::ByteMuts(ms) => {
            let mut b = parts.assemble();
            for (p, x) in ms {
                let p = idx(*p, b.len());
                b[p] ^= *x | 1;
            }
            b
        }
        Forgery::ByteAt(off, x) => {
            let mut b = parts.assemble();
            let p = (*off as usize).min(b.len() - 1);
            b[p] ^= *x | 1;
            b
        }
        Forgery::RandomDatagram(h) => h.0.clone(),
    }
}

fn key_string(pk: &[u8], b64: bool) -> String {
    if b64 {
        BASE64.encode(pk)
    } else {
        hex(pk)
    }
}

fn forgery_kind(f: &Forgery) -> String {
    match f {
        Forgery::Honest => "honest".into(),
        Forgery::Region(c, e) => format!("region:{:?}:{}", c, match e {
            Edit::Bit(_) => "bit",
            Edit::Byte(..) => "byte",
            Edit::Random(_) => "random",
            Edit::Zero => "zero",
            Edit::Ones => "ones",
        }),
        Forgery::PathAdd(_) => "path-add".into(),
        Forgery::PathRemove(_) => "path-remove".into(),
        Forgery::PathSwap(..) => "path-swap".into(),
        Forgery::IndexOther(_) => "index-other".into(),
        Forgery::ResignedByOtherLongTerm(..) => "resigned-other-long-term".into(),
        Forgery::WholeOtherKey => "whole-other-key".into(),
        Forgery::WindowBelow => "window-below".into(),
        Forgery::WindowAbove => "window-above".into(),
        Forgery::EmptyWindow(k) => format!("empty-window-{}", if k % 2 == 0 { "midpoint-above-mint" } else { "midpoint-below-maxt" }),
        Forgery::CrossContextCert => "cross-context-cert".into(),
        Forgery::CrossProtocolShape(k) => format!("cross-protocol-shape{}", k % 3),
        Forgery::CrossRequest(_) => "cross-request".into(),
        Forgery::ReplayPrevious(_) => "replay-previous-run".into(),
        Forgery::ResignedGenuine(c, _) => format!("resigned-by-genuine-online-key:{:?}", c),
        Forgery::RootLen(n) => format!("root-cut-to-{}-bytes-resigned", *n & !3),
        Forgery::OtherProtocolSignatures => "other-protocol-signatures-on-correct-proof".into(),
        Forgery::NeutralCertSig => "neutral-element-certificate-signature".into(),
        Forgery::ExtraTopLevelTag(t, _) => format!("extra-top-level-{}", rc::tag_name(EXTRA_TAGS[*t as usize % EXTRA_TAGS.len()])),
        Forgery::Truncate(_) => "truncate".into(),
        Forgery::Extend(_) => "extend".into(),
        Forgery::ByteMuts(_) => "byte-mutations".into(),
        Forgery::ByteAt(..) => "byte-at-offset".into(),
        Forgery::RandomDatagram(_) => "random-datagram".into(),
    }
}

/// C01 oracle for one client run.
fn check_forgery(ctx: &mut Ctx, plan: &Plan) -> Res {
    ctx.eval();
    let pr = proto(plan.ietf);
    let genuine = RefKey::from_seed(&LT_SEED).public();
    // what is pinned with -k: the genuine key, or bytes that are no public key (then nothing is authentic)
    let pk = if plan.bad_key == 0 { genuine.clone() } else { bad_key_bytes(plan.bad_key, &genuine) };
    let zone = plan.zone as usize % (C01_ZONES.len() + 1);
    let args = ClientArgs { ietf: plan.ietf, key: Some(key_string(&pk, plan.key_b64)), nreq: plan.nreq.clamp(1, 64), mode: plan.mode % 3, local_tz: if zone == 0 { None } else { Some(C01_ZONES[zone - 1].to_string()) }, opts: plan.opts & 7, via_alias: false };
    let delivered: RefCell<Vec<Vec<u8>>> = RefCell::new(vec![]);
    let run = match run_client(&args, |reqs| {
        let out: Vec<Vec<u8>> = (0..reqs.len()).map(|i| forge(plan, i, reqs)).collect();
        *delivered.borrow_mut() = out.clone();
        out.into_iter().map(|d| vec![d]).collect()
    }) {
        Ok(r) => r,
        Err(LabErr::Harness(m)) => {
            ctx.inconclusive(format!("clientlab: {}", m));
            return Ok(());
        }
    };
    let delivered = delivered.into_inner();
    if delivered.len() != run.requests.len() || run.requests.is_empty() {
        ctx.inconclusive("client exited before sending its requests".to_string());
        return Ok(());
    }
    // freshness: nonces pairwise distinct within the run and across all runs of this worker
    for (req, _) in &run.requests {
        if let ReqClass::WellFormed(i) = classify_request(req) {
            let fresh = NONCES.with(|n| n.borrow_mut().insert(i.nonce.clone()));
            if !fresh && ctx.counting {
                return ctx.fail("nonce-reused", format!("the client used nonce {} twice (within a run or across runs)", hex(&i.nonce)));
            }
        } else {
            return ctx.fail("client-request-not-wellformed", format!("the client sent {}", hex(&req[..req.len().min(64)])));
        }
    }
    // verdicts on what was actually delivered for what was actually asked
    let mut first_bad: Option<(usize, String)> = None;
    let mut near_valid = false;
    let mut signed_times: Vec<(i64, u32)> = vec![];
    let mut signed_radii: Vec<u32> = vec![];
    for (i, d) in delivered.iter().enumerate() {
        match verify_lenient(pr, &run.requests[i].0, d, &pk) {
            Lenient::Authentic(info) => {
                if first_bad.is_none() {
                    signed_radii.push(info.radi);
                    signed_times.push(match pr {
                        Proto::Classic => ((info.midp / 1_000_000) as i64, ((info.midp % 1_000_000) * 1_000) as u32),
                        Proto::Ietf => (info.midp as i64, 0),
                    });
                }
                if i == 0 && matches!(plan.forgery, Forgery::Honest) {
                    RECORDED.with(|r| {
                        let mut r = r.borrow_mut();
                        if r.len() < 64 {
                            r.push((plan.ietf, run.requests[i].0.clone(), d.clone()));
                        }
                    });
                }
            }
            Lenient::Unauthentic(why) => {
                if first_bad.is_none() {
                    first_bad = Some((i, why));
                    near_valid = true;
                }
            }
            Lenient::Unparseable(why) => {
                if first_bad.is_none() {
                    first_bad = Some((i, format!("unparseable:{}", why)));
                }
            }
        }
    }
    let kind = forgery_kind(&plan.forgery);
    let verdict = match &first_bad {
        None => "authentic",
        Some((_, w)) if w.starts_with("unparseable") => "unparseable",
        Some(_) => "unauthentic",
    };
    ctx.class(&format!("c01:{}:{}:{}:{}", pr.name(), if plan.key_b64 { "b64" } else { "hex" }, kind, verdict));
    // whatever time the client reports as verified must be the *signed* midpoint of the response it accepted
    // (midpoints beyond chrono's range make the client fail, which is allowed here)
    let printed = run.times();
    for (j, t) in printed.iter().enumerate() {
        if let Some(want) = signed_times.get(j) {
            if t != want {
                return ctx.fail(
                    "verified-time-is-not-the-signed-midpoint",
                    format!("{} client (forgery {}) printed {:?} for response #{} whose authenticated (signed) midpoint is {:?}: unauthenticated data reported as verified; stdout {:?}", pr.name(), kind, t, j, want, run.stdout),
                );
            }
        }
    }
    if plan.mode % 3 == 2 {
        // JSON output also reports the radius
        let radii: Vec<u32> = run.stdout.lines().filter_map(|l| l.split("\"radius\": ").nth(1)).filter_map(|r| r.split(',').next().and_then(|x| x.trim().parse().ok())).collect();
        for (j, r) in radii.iter().enumerate() {
            if let Some(want) = signed_radii.get(j) {
                if r != want {
                    return ctx.fail("verified-radius-is-not-the-signed-radius", format!("{} client (forgery {}) reported radius {} for response #{} whose signed RADI is {}; stdout {:?}", pr.name(), kind, r, j, want, run.stdout));
                }
            }
        }
    }
    if let Some((k, why)) = first_bad {
        let times = run.time_lines().len();
        let exit = run.exit.unwrap_or(-1);
        let why_class: String = why.split(':').next().unwrap_or("").to_string();
        if exit == 0 {
            return ctx.fail(
                format!("accepted-unauthentic|{}|exit0", why_class),
                format!(
                    "{} client with pinned key ({}) got a response that is not authentic ({}; forgery {}) for request #{} of {} and still exited 0; stdout: {:?}",
                    pr.name(),
                    if plan.key_b64 { "base64" } else { "hex" },
                    why,
                    kind,
                    k,
                    run.requests.len(),
                    run.stdout
                ),
            );
        }
        if times > k {
            return ctx.fail(
                format!("accepted-unauthentic|{}|time-printed", why_class),
                format!("{} client printed {} time line(s) although response #{} was not authentic ({}; forgery {}); exit {}; stdout {:?}", pr.name(), times, k, why, kind, exit, run.stdout),
            );
        }
        if near_valid {
            ctx.nontrivial(&(plan.ietf, plan.key_b64, &kind, &delivered[k]));
        }
    }
    Ok(())
}

fn edit_strategy() -> impl Strategy<Value = Edit> {
    prop_oneof![3 => any::<u16>().prop_map(Edit::Bit), 2 => (any::<u16>(), any::<u8>()).prop_map(|(p, x)| Edit::Byte(p, x)), 1 => any::<u8>().prop_map(Edit::Random), 1 => Just(Edit::Zero), 1 => Just(Edit::Ones)]
}

fn forgery_strategy() -> impl Strategy<Value = Forgery> {
    prop_oneof![
        1 => Just(Forgery::Honest),
        10 => (0usize..12, edit_strategy()).prop_map(|(c, e)| Forgery::Region(COMPS[c], e)),
        1 => any::<u8>().prop_map(Forgery::PathAdd),
        1 => any::<u8>().prop_map(Forgery::PathRemove),
        1 => (any::<u8>(), any::<u8>()).prop_map(|(a, b)| Forgery::PathSwap(a, b)),
        1 => any::<u8>().prop_map(Forgery::IndexOther),
        2 => (prop::sample::select(vec![Comp::Midp, Comp::Radi, Comp::Root]), edit_strategy()).prop_map(|(c, e)| Forgery::ResignedByOtherLongTerm(c, e)),
        1 => Just(Forgery::WholeOtherKey),
        1 => Just(Forgery::WindowBelow),
        1 => Just(Forgery::WindowAbove),
        1 => (0u8..2).prop_map(Forgery::EmptyWindow),
        1 => Just(Forgery::CrossContextCert),
        2 => any::<u8>().prop_map(Forgery::CrossProtocolShape),
        2 => any::<u8>().prop_map(Forgery::CrossRequest),
        2 => any::<u8>().prop_map(Forgery::ReplayPrevious),
        3 => (0u8..8, bytes(0usize..=8)).prop_map(|(t, v)| Forgery::ExtraTopLevelTag(t, v)),
        2 => (prop::sample::select(vec![Comp::Root, Comp::Midp, Comp::Radi, Comp::SrepVer]), edit_strategy()).prop_map(|(c, e)| Forgery::ResignedGenuine(c, e)),
        1 => (0u8..=68).prop_map(Forgery::RootLen),
        1 => Just(Forgery::OtherProtocolSignatures),
        1 => Just(Forgery::NeutralCertSig),
        2 => any::<u16>().prop_map(Forgery::Truncate),
        1 => bytes(1usize..=16).prop_map(Forgery::Extend),
        3 => proptest::collection::vec((any::<u16>(), any::<u8>()), 1..=8).prop_map(Forgery::ByteMuts),
        1 => bytes(prop_oneof![0usize..=16, 300usize..=500]).prop_map(Forgery::RandomDatagram),
    ]
}

fn midp_strategy(ietf: bool) -> impl Strategy<Value = u64> {
    // seconds from the epoch through 9999-12-31T23:59:59
    let secs = prop_oneof![
        3 => 0u64..=253_402_300_799,
        3 => 1_500_000_000u64..=2_000_000_000,
        1 => prop::sample::select(vec![0u64, 1, 59, 86_399, 86_400, 951_782_400, 951_868_799, 1_709_251_199, 4_102_444_799, 253_402_300_799]),
    ];
    let sub = prop_oneof![2 => prop::sample::select(vec![0u64, 1, 999, 1_000, 500_000, 999_999]), 2 => 0u64..1_000_000];
    (secs, sub).prop_map(move |(s, u)| if ietf { s } else { s * 1_000_000 + u })
}

fn batch_strategy() -> impl Strategy<Value = (u8, u8)> {
    prop_oneof![2 => Just(1u8), 3 => 2u8..=8, 3 => 1u8..=64, 1 => Just(64u8)].prop_flat_map(|b| (Just(b), 0..b))
}

fn plan_strategy() -> impl Strategy<Value = Plan> {
    (any::<bool>(), any::<bool>(), prop_oneof![5 => Just(1u8), 3 => 2u8..=4, 2 => 5u8..=16, 1 => 17u8..=64], 0u8..3, batch_strategy(), forgery_strategy(), any::<u8>()).prop_flat_map(|(ietf, key_b64, nreq, mode, (batch, index), forgery, target)| {
        (midp_strategy(ietf), prop_oneof![3 => Just(0u8), 1 => 1u8..=4], prop_oneof![4 => Just(None), 1 => (0usize..2, -3i64..=3).prop_map(Some)], prop_oneof![3 => Just(0u8), 1 => 0u8..8], prop_oneof![7 => Just(0u8), 1 => 1u8..=4]).prop_map(move |(midp, zone, fold, opts, bad_key)| {
            // a fifth of the local-time plans sit on an instant at which the zone repeats an hour
            let (midp, zone) = match fold {
                Some((k, d)) => {
                    let s = (DST_FOLDS[k] as i64 + d) as u64;
                    (if ietf { s } else { s * 1_000_000 }, if zone == 0 { 1 + k as u8 } else { zone })
                }
                None => (midp, zone),
            };
            Plan { ietf, key_b64, nreq, mode, batch, index, midp, target: target % nreq, forgery: forgery.clone(), zone, opts, bad_key }
        })
    })
}

/// fixed table: every component x edit kinds x version x key format
fn fixed_table() -> Vec<Plan> {
    let mut out = vec![];
    for ietf in [false, true] {
        for key_b64 in [false, true] {
            let base = |forgery: Forgery, batch: u8, index: u8, nreq: u8, target: u8| Plan { ietf, key_b64, nreq, mode: 0, batch, index, midp: if ietf { 1_700_000_000 } else { 1_700_000_000_123_456 }, target, forgery, zone: 0, opts: 0, bad_key: 0 };
            for c in COMPS {
                for e in [Edit::Bit(3), Edit::Byte(40_000, 0x80), Edit::Random(1), Edit::Zero, Edit::Ones] {
                    out.push(base(Forgery::Region(c, e), 5, 3, 1, 0));
                }
            }
            for f in [
                Forgery::PathAdd(0),
                Forgery::PathAdd(200),
                Forgery::PathRemove(0),
                Forgery::PathRemove(1),
                Forgery::PathSwap(0, 1),
                Forgery::IndexOther(0),
                Forgery::IndexOther(2),
                Forgery::ResignedByOtherLongTerm(Comp::Midp, Edit::Bit(1)),
                Forgery::ResignedByOtherLongTerm(Comp::Root, Edit::Zero),
                Forgery::WholeOtherKey,
                Forgery::WindowBelow,
                Forgery::WindowAbove,
                Forgery::CrossContextCert,
                Forgery::CrossProtocolShape(0),
                Forgery::CrossProtocolShape(1),
                Forgery::CrossProtocolShape(2),
                Forgery::Truncate(65_000),
                Forgery::Truncate(30_000),
                Forgery::Truncate(0),
                Forgery::Extend(Hex(vec![0; 4])),
                Forgery::ResignedGenuine(Comp::Root, Edit::Bit(5)),
                Forgery::ResignedGenuine(Comp::Root, Edit::Zero),
                Forgery::OtherProtocolSignatures,
                Forgery::NeutralCertSig,
                Forgery::EmptyWindow(0),
                Forgery::EmptyWindow(1),
                Forgery::RootLen(0),
                Forgery::RootLen(4),
                Forgery::RootLen(28),
                Forgery::ExtraTopLevelTag(0, Hex(vec![0x39, 0x30, 0, 0, 0, 0, 0, 0])),
                Forgery::ExtraTopLevelTag(1, Hex(vec![1, 0, 0, 0])),
                Forgery::ExtraTopLevelTag(2, Hex(vec![9; 8])),
                Forgery::ExtraTopLevelTag(3, Hex(vec![7; 8])),
                Forgery::ExtraTopLevelTag(4, Hex(vec![0xff; 8])),
                Forgery::ExtraTopLevelTag(5, Hex(vec![0; 8])),
            ] {
                out.push(base(f, 6, 4, 1, 0));
            }
            // output modes must not change what is enforced
            for mode in [1u8, 2] {
                for f in [Forgery::Region(Comp::Sig, Edit::Bit(100)), Forgery::Region(Comp::CertSig, Edit::Byte(9, 3)), Forgery::WholeOtherKey, Forgery::CrossContextCert, Forgery::WindowAbove, Forgery::IndexOther(1)] {
                    let mut p = base(f, 4, 2, 1, 0);
                    p.mode = mode;
                    out.push(p);
                }
            }
            // delegation windows ending/starting exactly where a zone repeats an hour, client printing local time
            for (k, fold) in DST_FOLDS.iter().enumerate() {
                for zone in [1 + k as u8, 3] {
                    for f in [Forgery::WindowAbove, Forgery::WindowBelow] {
                        let mut p = base(f, 2, 1, 1, 0);
                        p.zone = zone;
                        p.midp = if ietf { *fold } else { *fold * 1_000_000 };
                        out.push(p);
                    }
                }
            }
            // a pinned "key" that is no key: honest responses, the neutral-element certificate, a whole other chain
            for bad_key in 1..=4u8 {
                for f in [Forgery::Honest, Forgery::NeutralCertSig, Forgery::WholeOtherKey] {
                    let mut p = base(f, 2, 1, 1, 0);
                    p.bad_key = bad_key;
                    out.push(p);
                }
            }
            // the documented extra options: replays of an earlier run's response when requests are also written to a file
            for opts in [1u8, 2, 4, 7] {
                for f in [Forgery::Honest, Forgery::ReplayPrevious(0), Forgery::ReplayPrevious(1), Forgery::Region(Comp::Midp, Edit::Bit(3))] {
                    let mut p = base(f, 1, 0, 2, 1);
                    p.opts = opts;
                    out.push(p);
                }
            }
            // splices and replays inside multi-request runs
            out.push(base(Forgery::CrossRequest(0), 1, 0, 3, 1));
            out.push(base(Forgery::CrossRequest(2), 4, 1, 3, 0));
            out.push(base(Forgery::Region(Comp::Sig, Edit::Bit(9)), 3, 1, 4, 3));
            out.push(base(Forgery::Honest, 7, 6, 2, 0));
            out.push(base(Forgery::ReplayPrevious(0), 7, 6, 1, 0));
            out.push(base(Forgery::ReplayPrevious(1), 1, 0, 2, 1));
            // long multi-request runs (nonce freshness within a run; forgery late in the run)
            out.push(base(Forgery::Honest, 1, 0, 12, 0));
            out.push(base(Forgery::CrossRequest(0), 2, 1, 17, 16));
            out.push(base(Forgery::Region(Comp::CertSig, Edit::Bit(77)), 3, 2, 9, 8));
            out.push(base(Forgery::Region(Comp::Maxt, Edit::Zero), 1, 0, 33, 20));
        }
    }
    out
}

pub fn run_c01(ctx: &mut Ctx) -> Vec<Violation> {
    let t = ctx.tier;
    let mut out = vec![];
    let table = fixed_table();
    let v = run_enum(ctx, "fixed-table", table.len() as u64, |i| table[i as usize].clone(), |ctx, p| check_forgery(ctx, p));
    if v.is_empty() && ctx.shard == 0 {
        ctx.stats.exhaustive_spaces.push(format!("fixed single-component table: 12 components x 5 edit kinds + 26 structural forgeries, x 2 versions x 2 key formats = {} plans", table.len()));
        ctx.sample("fixed-table", 2, &table[7]);
    }
    out.extend(v);
    if t == Tier::Thorough {
        // every byte offset of the encoded response (honest response in a 5-request batch), both versions, both key formats,
        // and every truncation length
        let mut plans = vec![];
        for ietf in [false, true] {
            let len = if ietf { 12 + 48 + 64 + 32 + 96 + 116 + 152 + 4 } else { 48 + 64 + 64 + 192 + 100 + 152 + 4 };
            for key_b64 in [false, true] {
                for off in 0..len as u16 {
                    plans.push(Plan { ietf, key_b64, nreq: 1, mode: 0, batch: 5, index: 2, midp: if ietf { 1_800_000_000 } else { 1_800_000_000_000_001 }, target: 0, forgery: Forgery::ByteAt(off, 1 << (off % 8)), zone: 0, opts: 0, bad_key: 0 });
                }
            }
            for n in (0..u16::MAX).step_by(97) {
                plans.push(Plan { ietf, key_b64: false, nreq: 1, mode: 0, batch: 5, index: 2, midp: if ietf { 1_800_000_000 } else { 1_800_000_000_000_001 }, target: 0, forgery: Forgery::Truncate(n), zone: 0, opts: 0, bad_key: 0 });
            }
        }
        let v = run_enum(ctx, "every-offset", plans.len() as u64, |i| plans[i as usize].clone(), |ctx, p| check_forgery(ctx, p));
        if v.is_empty() && ctx.shard == 0 {
            ctx.stats.exhaustive_spaces.push(format!("every byte offset of an honest response (5-request batch) x 2 versions x 2 key formats, and ~675 truncation lengths per version: {} plans", plans.len()));
        }
        out.extend(v);
    }
    out.extend(run_prop(ctx, "random-plans", t.pick(16_000, 120_000), 60, plan_strategy(), |ctx, p| {
        ctx.sample("random-plans", 3, p);
        check_forgery(ctx, p)
    }));
    out
}

pub fn replay_c01(ctx: &mut Ctx, _sub: &str, case: &Value) -> Res {
    replay_case::<Plan, _>(ctx, case, |ctx, p| check_forgery(ctx, p))
}

// ------------------------------------------------------------------------------------------- C03

#[derive(Debug, Clone, Serialize, Deserialize)]
pub struct HonestPlan {
    pub ietf: bool,
    /// 0 none, 1 hex, 2 base64, 3 upper-case hex, 4 mixed-case hex
    pub key: u8,
    /// 0 = UTC output (-z); 1.. = local-time output (no -z) under one of LOCAL_ZONES
    #[serde(default)]
    pub zone: u8,
    pub nreq: u8,
    /// 0 plain, 1 -v, 2 -j, 3 default time format
    pub mode: u8,
    pub batch: u8,
    pub index: u8,
    pub midp: u64,
    /// false = reference responder (own keys, generated midpoint), true = the real Server behind a relay
    pub real_server: bool,
    /// all requests of a multi-request run are answered from ONE batch (what a real server does when they
    /// arrive together: same SREP and signature for all of them); false = one batch per request
    #[serde(default)]
    pub same_batch: bool,
    /// reference peer only: every request of the run is answered by a DIFFERENT online key, each certified by the one
    /// long-term key (what a multi-worker server does)
    #[serde(default)]
    pub rotate_online: bool,
    /// reference peer, IETF only: the signed list of versions the server supports (0 = classic + draft-13 like this
    /// project's server; 1 = draft-13 only; 2 = draft-13 and a newer one; 3 = classic, an older draft, draft-13, a newer one)
    #[serde(default)]
    pub vers_variant: u8,
    /// reference peer: request k of the run is answered with midpoint + k * step units (replies of one run come from
    /// different batches / workers, their midpoints need not increase)
    #[serde(default)]
    pub midp_step: i8,
    /// bit set of further client options (clientlab::ClientArgs::opts)
    #[serde(default)]
    pub opts: u8,
    /// reference peer: the delegation window. 0 = unbounded like this project's server; 1 = one hour either side of the
    /// midpoint; 2 = exactly [midpoint, midpoint]; 3 = [0, midpoint]. (The midpoints generated lie anywhere between
    /// 1970 and 9999: the client's own clock is almost never inside a bounded window, nor should that matter.)
    #[serde(default)]
    pub window: u8,
    /// reference peer: the server answers from another local address than the one the client asked
    #[serde(default)]
    pub via_alias: bool,
}

/// an honest reference reply for request number `k` of the run
fn honest_reply(p: &HonestPlan, online_seed: &[u8], pr: Proto, r: &[u8], batch: u8, index: u8, k: usize) -> Vec<u8> {
    let midp = (p.midp as i128 + k as i128 * p.midp_step as i128).clamp(0, if p.ietf { 253_402_300_799 } else { 253_402_300_799_999_999 }) as u64;
    let unit: u64 = if p.ietf { 1 } else { 1_000_000 };
    let mut responder = Responder::new(&LT_SEED, online_seed);
    match p.window % 4 {
        0 => {}
        1 => {
            responder.mint = midp.saturating_sub(3_600 * unit);
            responder.maxt = midp.saturating_add(3_600 * unit);
        }
        2 => {
            responder.mint = midp;
            responder.maxt = midp;
        }
        _ => responder.maxt = midp,
    }
    let resp = &responder;
    let mut parts = honest_parts(resp, pr, r, batch, index, midp);
    if p.ietf && p.vers_variant % 4 != 0 {
        let list: Vec<u32> = match p.vers_variant % 4 {
            1 => vec![VER_DRAFT13],
            2 => vec![VER_DRAFT13, 0x8000_000d],
            _ => vec![VER_CLASSIC, 0x8000_000b, VER_DRAFT13, 0x8000_000e],
        };
        parts.srep.set(rc::VERS, list.iter().flat_map(|v| v.to_le_bytes()).collect());
        parts.resign_srep(&resp.online);
    }
    parts.assemble()
}

/// POSIX TZ strings (no tzdata needed) and two named zones; the printed instant must not depend on the zone
const LOCAL_ZONES: [&str; 7] = ["XXX3", "YYY-5:30", "ZZZ-13", "America/St_Johns", "UTC", "EST5EDT,M3.2.0,M11.1.0", "CET-1CEST,M3.5.0,M10.5.0/3"];

fn check_honest(ctx: &mut Ctx, p: &HonestPlan) -> Res {
    ctx.eval();
    let pr = proto(p.ietf);
    let nreq = p.nreq.clamp(1, 64);
    let batch = p.batch.clamp(1, 64) as usize;
    let index = p.index as usize % batch;
    let ref_resp = Responder::new(&LT_SEED, &ONLINE_SEED);
    let mut lab = if p.real_server {
        install_logger(log::LevelFilter::Off);
        match Lab::new(LabCfg { seed: LT_SEED.to_vec(), batch_size: 64, ..Default::default() }, 64) {
            Ok(l) => Some(l),
            Err(e) => return ctx.fail("server-new-failed", e),
        }
    } else {
        None
    };
    let pk = RefKey::from_seed(&LT_SEED).public();
    let key = match p.key % 5 {
        0 => None,
        1 => Some(hex(&pk)),
        2 => Some(BASE64.encode(&pk)),
        3 => Some(hex(&pk).to_uppercase()),
        _ => Some(hex(&pk).chars().enumerate().map(|(i, ch)| if i % 3 == 0 { ch.to_ascii_uppercase() } else { ch }).collect()),
    };
    // local-time output is only compared through the epoch-seconds format (mode 3's civil date would need tzdata)
    let zone = if p.mode % 4 == 3 { 0 } else { p.zone as usize % (LOCAL_ZONES.len() + 1) };
    let local_tz = if zone == 0 { None } else { Some(LOCAL_ZONES[zone - 1].to_string()) };
    let args = ClientArgs { ietf: p.ietf, key: key.clone(), nreq, mode: p.mode % 4, local_tz: local_tz.clone(), opts: p.opts & 7, via_alias: p.via_alias && !p.real_server };
    let delivered: RefCell<Vec<Vec<u8>>> = RefCell::new(vec![]);
    let lab_err: RefCell<Option<String>> = RefCell::new(None);
    let run = run_client(&args, |reqs| {
        let mut out = vec![];
        if p.same_batch && reqs.len() >= 2 {
            // one batch: fillers up to `index`, then all of the client's requests, then fillers up to `batch`
            let total = (batch.max(index + reqs.len())).min(64).max(reqs.len());
            let first = index.min(total - reqs.len());
            let mut all: Vec<Vec<u8>> = vec![];
            for k in 0..total {
                if k >= first && k < first + reqs.len() {
                    all.push(reqs[k - first].clone());
                } else {
                    all.push(filler_request(pr, 7_000 + k as u32));
                }
            }
            match lab.as_mut() {
                None => {
                    let parts = ref_resp.respond_batch(pr, &all, p.midp);
                    for k in 0..reqs.len() {
                        out.push(parts[first + k].assemble());
                    }
                }
                Some(lab) => {
                    let sends: Vec<(usize, Vec<u8>)> = all.iter().enumerate().map(|(k, b)| (k, b.clone())).collect();
                    match lab.step(&sends, total) {
                        Ok(res) => {
                            for k in 0..reqs.len() {
                                out.push(res.replies[first + k].first().cloned().unwrap_or_default());
                            }
                        }
                        Err(StepErr::Panic(m)) | Err(StepErr::Wedged(m)) => {
                            *lab_err.borrow_mut() = Some(m);
                            out = vec![vec![]; reqs.len()];
                        }
                    }
                }
            }
            *delivered.borrow_mut() = out.clone();
            return out.into_iter().map(|d| vec![d]).collect();
        }
        for r in reqs {
            let d = match lab.as_mut() {
                None => {
                    if p.rotate_online {
                        let mut seed = ONLINE_SEED;
                        seed[0] ^= out.len() as u8 + 1;
                        honest_reply(p, &seed, pr, r, batch as u8, index as u8, out.len())
                    } else {
                        honest_reply(p, &ONLINE_SEED, pr, r, batch as u8, index as u8, out.len())
                    }
                }
                Some(lab) => {
                    // relay: the client's request at position `index` of a real batch of `batch` requests
                    let mut sends = vec![];
                    for k in 0..batch {
                        if k == index {
                            sends.push((k, r.clone()));
                        } else {
                            sends.push((k, filler_request(pr, k as u32)));
                        }
                    }
                    match lab.step(&sends, batch) {
                        Ok(res) => res.replies[index].first().cloned().unwrap_or_default(),
                        Err(StepErr::Panic(m)) | Err(StepErr::Wedged(m)) => {
                            *lab_err.borrow_mut() = Some(m);
                            vec![]
                        }
                    }
                }
            };
            out.push(d);
        }
        *delivered.borrow_mut() = out.clone();
        out.into_iter().map(|d| vec![d]).collect()
    });
    let run = match run {
        Ok(r) => r,
        Err(LabErr::Harness(m)) => {
            ctx.inconclusive(format!("clientlab: {}", m));
            return Ok(());
        }
    };
    if let Some(e) = lab_err.into_inner() {
        return ctx.fail("real-server-failed-on-client-request", e);
    }
    let delivered = delivered.into_inner();
    let peer = if p.real_server { "real-server" } else { "reference" };
    // the client's own requests must be standard (a server must answer them)
    let srv = srv_value(&pk);
    let mut expected: Vec<(i64, u32)> = vec![];
    let mut depth = 0usize;
    for (i, (req, _)) in run.requests.iter().enumerate() {
        if is_standard(req, &srv).is_none() {
            return ctx.fail("client-request-not-standard", format!("{} client request is not a standard request: {}", pr.name(), hex(&req[..req.len().min(80)])));
        }
        if key.is_some() && p.ietf {
            if let ReqClass::WellFormed(info) = classify_request(req) {
                if info.srv.as_deref() != Some(srv.as_slice()) {
                    return ctx.fail("client-request-lacks-srv", "IETF request with pinned key does not carry the key's SRV value");
                }
            }
        }
        // only a response the strict verifier accepts counts as 'honest'
        match verify_strict(pr, req, &delivered[i], &pk) {
            Ok(info) => {
                let (s, ns) = match pr {
                    Proto::Classic => ((info.midp / 1_000_000) as i64, ((info.midp % 1_000_000) * 1_000) as u32),
                    Proto::Ietf => (info.midp as i64, 0),
                };
                expected.push((s, ns));
                depth = info.path_len / pr.tree().width;
                if !(p.same_batch && run.requests.len() >= 2) && info.index as usize != index {
                    return Err(viol("harness-batch-position", format!("request landed at index {} not {}", info.index, index)));
                }
            }
            Err(e) => {
                if p.real_server {
                    // the server's fault, not the client's: that is C02's finding
                    ctx.inconclusive(format!("real server reply failed strict verification ({}); C03 not judged for this case", e));
                    return Ok(());
                }
                return Err(viol("oracle-disagreement", format!("reference responder output fails the strict verifier: {}", e)));
            }
        }
    }
    let desc = format!("{} key={} mode={} tz={:?} nreq={} batch={} index={} peer={} same_batch={}", pr.name(), ["none", "hex", "base64", "HEX", "mixed-case hex"][(p.key % 5) as usize], p.mode % 4, local_tz, nreq, batch, index, peer, p.same_batch);
    if run.exit != Some(0) {
        return ctx.fail(
            format!("honest-response-rejected|{}|{}", pr.name(), if index == 0 && batch == 1 { "single" } else { "batched" }),
            format!("{}: client exited {:?}; stderr: {:?}", desc, run.exit, run.stderr.lines().last()),
        );
    }
    if p.mode % 4 == 3 {
        // default format: compare the civil date
        let lines: Vec<&str> = run.stdout.lines().filter(|l| l.ends_with("UTC")).collect();
        if lines.len() != expected.len() {
            return ctx.fail("time-line-count", format!("{}: {} time lines for {} requests: {:?}", desc, lines.len(), expected.len(), run.stdout));
        }
        for (l, (s, _)) in lines.iter().zip(expected.iter()) {
            let want = default_format(*s);
            // chrono pads years > 9999 differently; only years <= 9999 are generated
            if *l != want {
                return ctx.fail("printed-date-wrong", format!("{}: printed {:?}, signed midpoint is {:?}", desc, l, want));
            }
        }
    } else {
        let got = run.times();
        if got != expected {
            return ctx.fail(
                format!("printed-time-not-midpoint|{}", pr.name()),
                format!("{}: printed (secs, nanos) {:?} but the signed midpoints convert to {:?}; stdout {:?}", desc, got, expected, run.stdout),
            );
        }
    }
    // verified flag iff a key was supplied
    match p.mode % 4 {
        1 => {
            let yes = run.stderr.matches("verified=Yes").count();
            let no = run.stderr.matches("verified=No").count();
            let want = if key.is_some() { (nreq as usize, 0) } else { (0, nreq as usize) };
            if (yes, no) != want {
                return ctx.fail("verified-flag-wrong", format!("{}: verified=Yes x{} / verified=No x{}", desc, yes, no));
            }
        }
        2 => {
            let yes = run.stdout.matches("\"verified\": true").count();
            let no = run.stdout.matches("\"verified\": false").count();
            let want = if key.is_some() { (nreq as usize, 0) } else { (0, nreq as usize) };
            if (yes, no) != want {
                return ctx.fail("verified-flag-wrong", format!("{}: \"verified\": true x{} / false x{}", desc, yes, no));
            }
        }
        _ => {}
    }
    ctx.class(&format!("c03:{}:key={}:depth={}:{}:{}", pr.name(), p.key % 5, depth, peer, if local_tz.is_some() { "local-time" } else { "utc" }));
    if index >= 1 || !p.real_server {
        ctx.nontrivial(&(p.ietf, p.key % 5, batch, index, p.real_server, p.mode % 4, zone, if p.real_server { 0 } else { p.midp }));
    }
    Ok(())
}

fn honest_strategy() -> impl Strategy<Value = HonestPlan> {
    (any::<bool>(), prop_oneof![3 => 0u8..3, 1 => 3u8..5], prop_oneof![6 => Just(1u8), 2 => 2u8..=4, 1 => 5u8..=16, 1 => 17u8..=64], 0u8..4, batch_strategy(), prop::bool::weighted(0.4), prop_oneof![2 => Just(0u8), 1 => 1u8..=7]).prop_flat_map(|(ietf, key, nreq, mode, (batch, index), real_server, zone)| {
        (midp_strategy(ietf), any::<bool>(), any::<bool>(), prop_oneof![2 => Just(0u8), 1 => 1u8..4], prop_oneof![2 => Just(0i8), 1 => -3i8..=3], prop_oneof![3 => Just(0u8), 1 => 0u8..8], prop_oneof![2 => Just(0u8), 1 => 1u8..4], prop::bool::weighted(0.2)).prop_map(move |(midp, same_batch, rotate, vers_variant, midp_step, opts, window, via_alias)| HonestPlan { ietf, key, zone, nreq, mode, batch, index, midp, real_server, same_batch: same_batch && !rotate, rotate_online: rotate && !real_server, vers_variant, midp_step, opts, window, via_alias })
    })
}

pub fn run_c03(ctx: &mut Ctx) -> Vec<Violation> {
    let t = ctx.tier;
    let mut out = vec![];
    // grid: every path depth 0..=6 (batch sizes 1,2,3,5,9,17,33,64) x first/last position x version x key option x peer
    let mut grid = vec![];
    for ietf in [false, true] {
        for key in 0..3u8 {
            for real_server in [false, true] {
                let sizes: Vec<u8> = match t {
                    Tier::Quick => vec![1, 2, 3, 5, 9, 17, 33, 64],
                    Tier::Thorough => (1..=64).collect(),
                };
                for b in sizes {
                    let idxs: Vec<u8> = match t {
                        Tier::Quick => vec![0, b - 1],
                        Tier::Thorough => (0..b).collect(),
                    };
                    for i in idxs {
                        if t == Tier::Thorough && key == 2 && b > 8 {
                            continue;
                        }
                        grid.push(HonestPlan { ietf, key, zone: 0, nreq: 1, mode: (b + i) % 4, batch: b, index: i, midp: if ietf { 1_750_000_000 } else { 1_750_000_000_999_999 }, real_server, same_batch: false, rotate_online: false, vers_variant: 0, midp_step: 0, opts: 0, window: 0, via_alias: false });
                    }
                }
            }
        }
    }
    grid.dedup_by_key(|p| (p.ietf, p.key, p.batch, p.index, p.real_server));
    // multi-request runs answered from one batch (same signature for all replies), both peers
    for ietf in [false, true] {
        for key in 0..3u8 {
            for real_server in [false, true] {
                for (nreq, batch, index) in [(2u8, 2u8, 0u8), (3, 8, 2), (5, 5, 0), (9, 16, 4), (16, 64, 40)] {
                    grid.push(HonestPlan { ietf, key, zone: 0, nreq, mode: nreq % 3, batch, index, midp: if ietf { 1_760_000_000 } else { 1_760_000_000_000_001 }, real_server, same_batch: true, rotate_online: false, vers_variant: 0, midp_step: 0, opts: 0, window: 0, via_alias: false });
                }
            }
        }
    }
    // other honest servers: different signed version lists; midpoints that do not increase from reply to reply; the
    // client's extra options
    for ietf in [false, true] {
        for (vers_variant, midp_step, opts) in [(1u8, 0i8, 0u8), (2, 0, 0), (3, 0, 1), (0, -1, 0), (0, -3, 2), (2, 1, 4), (0, 0, 7)] {
            grid.push(HonestPlan { ietf, key: 1, zone: 0, nreq: 3, mode: vers_variant % 3, batch: 2, index: 1, midp: if ietf { 1_766_000_000 } else { 1_766_000_000_000_002 }, real_server: false, same_batch: false, rotate_online: false, vers_variant, midp_step, opts, window: (vers_variant + opts) % 4, via_alias: opts % 2 == 1 });
        }
    }
    // every reply of a run signed by a different (certified) online key
    for ietf in [false, true] {
        for key in 0..3u8 {
            grid.push(HonestPlan { ietf, key, zone: 0, nreq: 4, mode: key, batch: 3, index: 1, midp: if ietf { 1_765_000_000 } else { 1_765_000_000_000_000 }, real_server: false, same_batch: false, rotate_online: true, vers_variant: 0, midp_step: 0, opts: 0, window: 0, via_alias: false });
        }
    }
    // key spellings and local-time output
    for ietf in [false, true] {
        for key in [3u8, 4] {
            grid.push(HonestPlan { ietf, key, zone: 0, nreq: 1, mode: 1, batch: 3, index: 1, midp: if ietf { 1_770_000_000 } else { 1_770_000_000_500_000 }, real_server: false, same_batch: false, rotate_online: false, vers_variant: 0, midp_step: 0, opts: 0, window: 0, via_alias: false });
        }
        // honest replies whose midpoint falls in an hour the local zone repeats or skips (clocks back / forward)
        for (zone, instants) in [(6u8, [1_762_063_200u64, 1_762_063_199, 1_741_503_600]), (7u8, [1_761_440_400, 1_761_440_399, 1_743_296_400])] {
            for (k, s) in instants.iter().enumerate() {
                grid.push(HonestPlan { ietf, key: 1, zone, nreq: 1, mode: k as u8 % 3, batch: 2, index: 0, midp: if ietf { *s } else { *s * 1_000_000 + 1 }, real_server: false, same_batch: false, rotate_online: false, vers_variant: 0, midp_step: 0, opts: 0, window: 0, via_alias: false });
            }
        }
        for zone in 1..=5u8 {
            for midp_s in [1_770_000_000u64, 1_751_759_999, 1_762_061_400, 86_399, 4_102_444_799] {
                grid.push(HonestPlan { ietf, key: 1, zone, nreq: 1, mode: zone % 3, batch: 2, index: 1, midp: if ietf { midp_s } else { midp_s * 1_000_000 + 7 }, real_server: false, same_batch: false, rotate_online: false, vers_variant: 0, midp_step: 0, opts: 0, window: 0, via_alias: false });
            }
        }
    }
    let v = run_enum(ctx, "grid", grid.len() as u64, |i| grid[i as usize].clone(), |ctx, p| check_honest(ctx, p));
    if v.is_empty() && ctx.shard == 0 {
        ctx.stats.exhaustive_spaces.push(format!("grid of {} plans: version x key option x peer x batch sizes {} x positions {}", grid.len(), t.pick("{1,2,3,5,9,17,33,64}", "1..=64"), t.pick("{first,last}", "all")));
        ctx.sample("grid", 2, &grid[grid.len() / 3]);
    }
    out.extend(v);
    out.extend(run_prop(ctx, "random", t.pick(8_000, 60_000), 40, honest_strategy(), |ctx, p| {
        ctx.sample("random", 3, p);
        check_honest(ctx, p)
    }));
    out
}

pub fn replay_c03(ctx: &mut Ctx, _sub: &str, case: &Value) -> Res {
    replay_case::<HonestPlan, _>(ctx, case, |ctx, p| check_honest(ctx, p))
}
