//! C05 (codec differential / round trip / canonical) and C06 (decode + Display safety).
//! Both properties use the same generators; the oracle differs.

use crate::engine::*;
use crate::gen::*;
use crate::refcodec::{self as rc, Msg};
use proptest::prelude::*;
use roughenough::{RtMessage, Tag};
use serde::{Deserialize, Serialize};
use serde_json::Value;

#[derive(Clone, Copy, PartialEq, Eq)]
pub enum Mode {
    C05,
    C06,
}

fn tag_of(t: u32) -> Tag {
    Tag::from_wire(&t.to_le_bytes()).expect("known tag")
}

// ---------------------------------------------------------------- shared oracles on a byte string

fn impl_fields(m: &RtMessage) -> Vec<(u32, Vec<u8>)> {
    m.tags()
        .iter()
        .zip(m.values().iter())
        .map(|(t, v)| {
            let w = t.wire_value();
            (u32::from_le_bytes([w[0], w[1], w[2], w[3]]), v.clone())
        })
        .collect()
}

/// C05 oracle on raw bytes: accept iff reference accepts, identical content, canonical re-encoding.
pub fn diff_check(ctx: &mut Ctx, x: &[u8], kind: &str) -> Res {
    ctx.eval();
    let r_ref = Msg::decode_known(x);
    let r_imp = match no_unwind(|| RtMessage::from_bytes(x)) {
        Ok(r) => r,
        Err(p) => return ctx.fail(format!("decode-panic|{}", panic_site(&p)), format!("from_bytes panicked: {} on {}", p, rc::hex(x))),
    };
    let n = if x.len() >= 4 { u32::from_le_bytes([x[0], x[1], x[2], x[3]]) } else { 0 };
    match (&r_imp, &r_ref) {
        (Ok(m), Ok(r)) => {
            let f = impl_fields(m);
            if f != r.fields {
                return ctx.fail("content-mismatch", format!("impl {:?} != ref {:?} on {}", f, r.fields, rc::hex(x)));
            }
            if !f.is_empty() {
                let re = match no_unwind(|| m.encode()) {
                    Ok(Ok(b)) => b,
                    Ok(Err(e)) => return ctx.fail("reencode-error", format!("{:?} on {}", e, rc::hex(x))),
                    Err(p) => return ctx.fail("reencode-panic", format!("{} on {}", p, rc::hex(x))),
                };
                if re != x {
                    return ctx.fail("not-canonical", format!("accepted {} re-encodes to {}", rc::hex(x), rc::hex(&re)));
                }
            }
            ctx.class(&format!("{}:accepted:fields={}", kind, f.len().min(4)));
            if f.len() >= 3 {
                ctx.nontrivial(&("acc", x));
            }
        }
        (Err(_), Err(e)) => {
            ctx.class(&format!("{}:rejected:{}", kind, errname(e)));
            if n >= 1 && x.len() >= 8 {
                ctx.nontrivial(&("rej", x));
            }
        }
        (Ok(m), Err(e)) => {
            return ctx.fail(
                format!("impl-accepts-ref-rejects|{}", errname(e)),
                format!("impl accepted {:?}, reference rejects with {:?}: {}", impl_fields(m), e, rc::hex(x)),
            );
        }
        (Err(ie), Ok(r)) => {
            return ctx.fail(
                format!("impl-rejects-ref-accepts|{:?}", std::mem::discriminant(ie)),
                format!("impl rejects with {:?}, reference accepts {:?}: {}", ie, r.fields, rc::hex(x)),
            );
        }
    }
    Ok(())
}

fn errname(e: &rc::DecErr) -> &'static str {
    match e {
        rc::DecErr::Short => "short",
        rc::DecErr::Unaligned => "unaligned",
        rc::DecErr::HeaderTooLong => "header-too-long",
        rc::DecErr::UnknownTag(_) => "unknown-tag",
        rc::DecErr::TagOrder => "tag-order",
        rc::DecErr::OffsetUnaligned => "offset-unaligned",
        rc::DecErr::OffsetOrder => "offset-order",
        rc::DecErr::OffsetRange => "offset-range",
    }
}

/// C06 oracle on raw bytes: no unwind; values are exactly the bytes after the header; Display returns.
pub fn safety_check(ctx: &mut Ctx, x: &[u8], kind: &str) -> Res {
    ctx.eval();
    let r = match no_unwind(|| RtMessage::from_bytes(x)) {
        Ok(r) => r,
        Err(p) => return ctx.fail(format!("decode-panic|{}", panic_site(&p)), format!("from_bytes panicked: {} on {}", p, rc::hex(x))),
    };
    let n = if x.len() >= 4 { u32::from_le_bytes([x[0], x[1], x[2], x[3]]) } else { 0 };
    match r {
        Ok(m) => {
            let nf = m.num_fields() as usize;
            if nf >= 1 {
                let hl = Msg::header_len(nf);
                let cat: Vec<u8> = m.values().iter().flat_map(|v| v.iter().copied()).collect();
                if hl > x.len() || cat != x[hl..] {
                    return ctx.fail("values-not-input-suffix", format!("values {} vs input {}", rc::hex(&cat), rc::hex(x)));
                }
            }
            let nested_bad = m
                .tags()
                .iter()
                .zip(m.values().iter())
                .any(|(t, v)| t.is_nested() && Msg::decode_known(v).is_err());
            match no_unwind(|| format!("{}", m)) {
                Ok(_) => {} // what it prints is not part of the property; it has to return
                Err(p) => {
                    return ctx.fail(
                        format!("display-panic|{}", panic_site(&p)),
                        format!("Display panicked ({}) for accepted message {}", p, rc::hex(x)),
                    )
                }
            }
            ctx.class(&format!("{}:accepted{}", kind, if nested_bad { ":nested-undecodable" } else { "" }));
            if nested_bad {
                ctx.nontrivial(&("nb", x));
            }
        }
        Err(_) => {
            ctx.class(&format!("{}:rejected", kind));
            if n >= 2 {
                ctx.nontrivial(&("rej", x));
            }
        }
    }
    Ok(())
}

fn check(mode: Mode, ctx: &mut Ctx, x: &[u8], kind: &str) -> Res {
    match mode {
        Mode::C05 => diff_check(ctx, x, kind),
        Mode::C06 => safety_check(ctx, x, kind),
    }
}

// ---------------------------------------------------------------- (a) API messages

#[derive(Debug, Clone, Serialize, Deserialize)]
pub struct ApiMsg {
    /// (index into the 18 known tags, value) in ascending tag order
    pub fields: Vec<(u8, Hex)>,
}

pub fn api_msg(max_words: usize) -> impl Strategy<Value = ApiMsg> {
    proptest::sample::subsequence((0u8..18).collect::<Vec<_>>(), 0..=18)
        .prop_flat_map(move |tags| {
            let n = tags.len();
            (Just(tags), proptest::collection::vec(bytes(aligned_len(max_words)), n))
        })
        .prop_map(|(tags, vals)| ApiMsg { fields: tags.into_iter().zip(vals).collect() })
}

impl ApiMsg {
    pub fn to_ref(&self) -> Msg {
        Msg { fields: self.fields.iter().map(|(t, v)| (rc::KNOWN[*t as usize], v.0.clone())).collect() }
    }
    pub fn to_impl(&self) -> Result<RtMessage, String> {
        let mut m = RtMessage::with_capacity(self.fields.len() as u32);
        for (t, v) in &self.fields {
            m.add_field(tag_of(rc::KNOWN[*t as usize]), &v.0).map_err(|e| format!("{:?}", e))?;
        }
        Ok(m)
    }
}

fn api_roundtrip(ctx: &mut Ctx, c: &ApiMsg) -> Res {
    ctx.eval();
    let r = c.to_ref();
    let m = match no_unwind(|| c.to_impl()) {
        Ok(Ok(m)) => m,
        Ok(Err(e)) => return ctx.fail("api-add-field-refused", format!("{} for {:?}", e, c)),
        Err(p) => return ctx.fail("api-panic", p),
    };
    let enc = match no_unwind(|| m.encode()) {
        Ok(Ok(b)) => b,
        Ok(Err(e)) => return ctx.fail("encode-error", format!("{:?}", e)),
        Err(p) => return ctx.fail("encode-panic", p),
    };
    if enc != r.encode() {
        return ctx.fail("encode-differs-from-reference", format!("impl {} ref {}", rc::hex(&enc), rc::hex(&r.encode())));
    }
    if m.encoded_size() != enc.len() {
        return ctx.fail("encoded-size-wrong", format!("{} vs {}", m.encoded_size(), enc.len()));
    }
    let back = match no_unwind(|| RtMessage::from_bytes(&enc)) {
        Ok(Ok(b)) => b,
        Ok(Err(e)) => return ctx.fail("roundtrip-decode-error", format!("{:?} for {:?}", e, c)),
        Err(p) => return ctx.fail("roundtrip-decode-panic", p),
    };
    if impl_fields(&back) != r.fields {
        return ctx.fail("roundtrip-content", format!("{:?} -> {:?}", r.fields, impl_fields(&back)));
    }
    // API getters agree
    for (t, v) in &r.fields {
        if back.get_field(tag_of(*t)) != Some(v.as_slice()) {
            return ctx.fail("get-field-mismatch", format!("tag {}", rc::tag_name(*t)));
        }
    }
    let framed = match no_unwind(|| m.encode_framed()) {
        Ok(Ok(b)) => b,
        _ => return ctx.fail("encode-framed-failed", format!("{:?}", c)),
    };
    let mut want = b"ROUGHTIM".to_vec();
    want.extend_from_slice(&(enc.len() as u32).to_le_bytes());
    want.extend_from_slice(&enc);
    if framed != want {
        return ctx.fail("framing-wrong", format!("framed {} want {}", rc::hex(&framed[..framed.len().min(32)]), rc::hex(&want[..want.len().min(32)])));
    }
    ctx.class(&format!("api:fields={}", c.fields.len().min(6)));
    if c.fields.len() >= 3 {
        ctx.nontrivial(&enc);
    }
    ctx.sample("api", 2, c);
    Ok(())
}

// ---------------------------------------------------------------- (a2) API call sequences on one message object

/// interleaving of add_field with the read-only API (encoded_size, encode, calculate_padding_length, getters) and clear()
#[derive(Debug, Clone, Serialize, Deserialize)]
pub enum ApiOp {
    Add(u8, Hex),
    Size,
    Encode,
    EncodeFramed,
    PaddingLen,
    Clear,
    CloneAndCompare,
}

fn api_ops() -> impl Strategy<Value = Vec<ApiOp>> {
    let op = prop_oneof![
        6 => (0u8..18, bytes(aligned_len(24))).prop_map(|(t, v)| ApiOp::Add(t, v)),
        3 => Just(ApiOp::Size),
        2 => Just(ApiOp::Encode),
        1 => Just(ApiOp::EncodeFramed),
        1 => Just(ApiOp::PaddingLen),
        1 => Just(ApiOp::Clear),
        1 => Just(ApiOp::CloneAndCompare),
    ];
    proptest::collection::vec(op, 1..=24)
}

fn api_sequence(ctx: &mut Ctx, ops: &Vec<ApiOp>) -> Res {
    ctx.eval();
    let mut m = RtMessage::with_capacity(4);
    let mut model = Msg::new();
    let mut grew_after_read = false;
    let mut read_since_clear = false;
    for (n, op) in ops.iter().enumerate() {
        let r = no_unwind(|| -> Result<(), String> {
            match op {
                ApiOp::Add(t, v) => {
                    let tag = rc::KNOWN[*t as usize % 18];
                    let ok_model = model.fields.last().map(|l| tag > l.0).unwrap_or(true);
                    let r = m.add_field(tag_of(tag), &v.0);
                    if r.is_ok() != ok_model {
                        return Err(format!("add_field({}) returned {:?} but strictly ascending order says {}", rc::tag_name(tag), r.is_ok(), ok_model));
                    }
                    if ok_model {
                        model.fields.push((tag, v.0.clone()));
                    }
                }
                ApiOp::Size => {
                    if m.encoded_size() != model.encode().len() {
                        return Err(format!("encoded_size() = {} but the encoding has {} bytes", m.encoded_size(), model.encode().len()));
                    }
                }
                ApiOp::Encode => {
                    let e = m.encode().map_err(|e| format!("encode error {:?}", e))?;
                    if e != model.encode() {
                        return Err(format!("encode() = {} differs from the reference {}", rc::hex(&e), rc::hex(&model.encode())));
                    }
                }
                ApiOp::EncodeFramed => {
                    let e = m.encode_framed().map_err(|e| format!("encode_framed error {:?}", e))?;
                    if e != model.encode_framed() {
                        return Err("encode_framed() differs from the reference".into());
                    }
                }
                ApiOp::PaddingLen => {
                    // a helper outside the property: only its documented purpose is checked (a message that is already
                    // >= 1 KiB needs no padding; otherwise the padding fits into 1 KiB) and that it disturbs nothing
                    let size = model.encode().len();
                    let got = m.calculate_padding_length();
                    if (size >= 1024 && got != 0) || (size < 1024 && got > 1024) {
                        return Err(format!("calculate_padding_length() = {} for a {}-byte message", got, size));
                    }
                }
                ApiOp::Clear => {
                    m.clear();
                    model = Msg::new();
                }
                ApiOp::CloneAndCompare => {
                    let c = m.clone();
                    if impl_fields(&c) != model.fields || c.num_fields() as usize != model.fields.len() {
                        return Err("clone/tags()/values() disagree with the fields added".into());
                    }
                    for (t, v) in &model.fields {
                        if c.get_field(tag_of(*t)) != Some(v.as_slice()) {
                            return Err(format!("get_field({}) wrong", rc::tag_name(*t)));
                        }
                    }
                }
            }
            Ok(())
        });
        match op {
            ApiOp::Add(..) => {
                if read_since_clear {
                    grew_after_read = true;
                }
            }
            ApiOp::Clear => read_since_clear = false,
            _ => read_since_clear = true,
        }
        match r {
            Ok(Ok(())) => {}
            Ok(Err(e)) => return ctx.fail("api-sequence-mismatch", format!("op #{} {:?}: {}", n, op, e)),
            Err(p) => return ctx.fail(format!("api-sequence-panic|{}", panic_site(&p)), format!("op #{} {:?}: {}", n, op, p)),
        }
    }
    ctx.class(&format!("api-seq:{}", if grew_after_read { "grew-after-read" } else { "plain" }));
    if grew_after_read {
        ctx.nontrivial(&rc::hex(&model.encode()));
    }
    Ok(())
}

// ---------------------------------------------------------------- (b) bounded-exhaustive word strings

pub const ALPHABET: [u32; 16] = [
    0,
    1,
    2,
    3,
    4,
    8,
    12,
    16,
    5,
    0x7fff_fffc,
    0xffff_fffc,
    0xffff_ffff,
    rc::SIG,
    rc::NONC,
    rc::PAD,
    u32::from_le_bytes(*b"XXXX"),
];

/// number of word strings of length 0..=max_len over the 16-word alphabet
pub fn exh_total(max_len: u32) -> u64 {
    (0..=max_len).map(|l| 16u64.pow(l)).sum()
}

/// i-th word string in length-then-lexicographic order
pub fn exh_string(mut i: u64) -> Vec<u8> {
    let mut len = 0u32;
    loop {
        let c = 16u64.pow(len);
        if i < c {
            break;
        }
        i -= c;
        len += 1;
    }
    let mut out = Vec::with_capacity(len as usize * 4);
    let mut digits = vec![0usize; len as usize];
    for d in (0..len as usize).rev() {
        digits[d] = (i % 16) as usize;
        i /= 16;
    }
    for d in digits {
        out.extend_from_slice(&ALPHABET[d].to_le_bytes());
    }
    out
}

// ---------------------------------------------------------------- (c) structured mutants

#[derive(Debug, Clone, Serialize, Deserialize)]
pub enum Mut {
    SetCount(u32),
    SetOffset(u16, u32),
    SetTag(u16, u32),
    SwapTags(u16, u16),
    DupTag(u16),
    SetWord(u16, u32),
    Truncate(u16),
    Extend(Hex),
    FlipBit(u16, u8),
    TruncToUnaligned(u8),
}

fn boundary_word() -> impl Strategy<Value = u32> {
    prop_oneof![
        4 => prop::sample::select(vec![0u32, 1, 2, 3, 4, 5, 7, 8, 12, 16, 17, 18, 19, 1024, 1025, 1 << 30, 0x7fff_fffc, 0xffff_fffc, 0xffff_ffff, 0x8000_0000]),
        2 => (0u32..4096).prop_map(|w| w * 4),
        1 => prop::sample::select(rc::KNOWN.to_vec()),
        1 => any::<u32>(),
    ]
}

/// a known tag with one byte replaced (0x00, 0xff, case flip, +-1, arbitrary): words a sloppy tag matcher might accept
fn near_tag() -> impl Strategy<Value = u32> {
    (prop::sample::select(rc::KNOWN.to_vec()), 0usize..4, prop_oneof![Just(0x00u8), Just(0xffu8), Just(0x20u8), any::<u8>()], 0u8..4).prop_map(|(t, pos, b, how)| {
        let mut w = t.to_le_bytes();
        w[pos] = match how {
            0 => b,
            1 => w[pos] ^ 0x20,
            2 => w[pos].wrapping_add(1),
            _ => w[pos].wrapping_sub(1),
        };
        u32::from_le_bytes(w)
    })
}

/// exhaustive near-tag space: every known tag x byte position x byte value, in three message shapes
pub fn near_tag_total() -> u64 {
    18 * 4 * 256 * 3
}

pub fn near_tag_message(i: u64) -> Vec<u8> {
    let shape = i % 3;
    let r = i / 3;
    let byte = (r % 256) as u8;
    let pos = ((r / 256) % 4) as usize;
    let t = rc::KNOWN[(r / 1024) as usize % 18];
    let mut w = t.to_le_bytes();
    w[pos] = byte;
    let word = u32::from_le_bytes(w);
    let mut out = vec![];
    match shape {
        0 => {
            // single field
            out.extend_from_slice(&1u32.to_le_bytes());
            out.extend_from_slice(&word.to_le_bytes());
            out.extend_from_slice(&[1, 2, 3, 4]);
        }
        1 => {
            // NONC then the word
            out.extend_from_slice(&2u32.to_le_bytes());
            out.extend_from_slice(&4u32.to_le_bytes());
            out.extend_from_slice(&rc::NONC.to_le_bytes());
            out.extend_from_slice(&word.to_le_bytes());
            out.extend_from_slice(&[1, 2, 3, 4, 5, 6, 7, 8]);
        }
        _ => {
            // the word then ROOT
            out.extend_from_slice(&2u32.to_le_bytes());
            out.extend_from_slice(&4u32.to_le_bytes());
            out.extend_from_slice(&word.to_le_bytes());
            out.extend_from_slice(&rc::ROOT.to_le_bytes());
            out.extend_from_slice(&[1, 2, 3, 4, 5, 6, 7, 8]);
        }
    }
    out
}

fn mutation() -> impl Strategy<Value = Mut> {
    prop_oneof![
        3 => boundary_word().prop_map(Mut::SetCount),
        4 => (any::<u16>(), boundary_word()).prop_map(|(i, v)| Mut::SetOffset(i, v)),
        2 => (any::<u16>(), prop_oneof![prop::sample::select(rc::KNOWN.to_vec()), Just(u32::from_le_bytes(*b"XXXX")), any::<u32>()]).prop_map(|(i, v)| Mut::SetTag(i, v)),
        2 => (any::<u16>(), near_tag()).prop_map(|(i, v)| Mut::SetTag(i, v)),
        2 => (any::<u16>(), any::<u16>()).prop_map(|(a, b)| Mut::SwapTags(a, b)),
        1 => any::<u16>().prop_map(Mut::DupTag),
        2 => (any::<u16>(), boundary_word()).prop_map(|(i, v)| Mut::SetWord(i, v)),
        2 => any::<u16>().prop_map(Mut::Truncate),
        1 => bytes(0usize..=16).prop_map(Mut::Extend),
        1 => (any::<u16>(), 0u8..8).prop_map(|(i, b)| Mut::FlipBit(i, b)),
        1 => (1u8..4).prop_map(Mut::TruncToUnaligned),
    ]
}

pub fn apply_muts(base: &[u8], nfields: usize, muts: &[Mut]) -> Vec<u8> {
    let mut x = base.to_vec();
    let setw = |x: &mut Vec<u8>, w: usize, v: u32| {
        if w * 4 + 4 <= x.len() {
            x[w * 4..w * 4 + 4].copy_from_slice(&v.to_le_bytes());
        }
    };
    let getw = |x: &Vec<u8>, w: usize| -> u32 {
        if w * 4 + 4 <= x.len() {
            u32::from_le_bytes([x[w * 4], x[w * 4 + 1], x[w * 4 + 2], x[w * 4 + 3]])
        } else {
            0
        }
    };
    let n = nfields;
    let tag_base = if n == 0 { 1 } else { 1 + (n - 1) };
    for m in muts {
        match m {
            Mut::SetCount(v) => setw(&mut x, 0, *v),
            Mut::SetOffset(i, v) => {
                if n >= 2 {
                    setw(&mut x, 1 + idx(*i, n - 1), *v)
                }
            }
            Mut::SetTag(i, v) => {
                if n >= 1 {
                    setw(&mut x, tag_base + idx(*i, n), *v)
                }
            }
            Mut::SwapTags(a, b) => {
                if n >= 2 {
                    let (a, b) = (tag_base + idx(*a, n), tag_base + idx(*b, n));
                    let (va, vb) = (getw(&x, a), getw(&x, b));
                    setw(&mut x, a, vb);
                    setw(&mut x, b, va);
                }
            }
            Mut::DupTag(i) => {
                if n >= 2 {
                    let a = tag_base + idx(*i, n - 1);
                    let va = getw(&x, a);
                    setw(&mut x, a + 1, va);
                }
            }
            Mut::SetWord(i, v) => {
                let words = x.len() / 4;
                if words > 0 {
                    setw(&mut x, idx(*i, words), *v)
                }
            }
            Mut::Truncate(i) => {
                let words = x.len() / 4;
                let keep = idx(*i, words + 1);
                x.truncate(keep * 4);
            }
            Mut::Extend(h) => x.extend_from_slice(&h.0),
            Mut::FlipBit(i, b) => {
                if !x.is_empty() {
                    let p = idx(*i, x.len());
                    x[p] ^= 1 << b;
                }
            }
            Mut::TruncToUnaligned(k) => {
                let l = x.len();
                if l >= *k as usize {
                    x.truncate(l - *k as usize);
                }
            }
        }
    }
    x
}

#[derive(Debug, Clone, Serialize, Deserialize)]
pub struct MutCase {
    pub base: ApiMsg,
    pub muts: Vec<Mut>,
}

pub fn mut_case(max_words: usize) -> impl Strategy<Value = MutCase> {
    (api_msg(max_words), proptest::collection::vec(mutation(), 1..=4)).prop_map(|(base, muts)| MutCase { base, muts })
}

fn mut_kind(m: &Mut) -> &'static str {
    match m {
        Mut::SetCount(_) => "count",
        Mut::SetOffset(..) => "offset",
        Mut::SetTag(..) => "tag",
        Mut::SwapTags(..) => "swap",
        Mut::DupTag(_) => "dup",
        Mut::SetWord(..) => "word",
        Mut::Truncate(_) => "trunc",
        Mut::Extend(_) => "extend",
        Mut::FlipBit(..) => "bit",
        Mut::TruncToUnaligned(_) => "unalign",
    }
}

// ---------------------------------------------------------------- C06 extras: nested garbage for Display

#[derive(Debug, Clone, Serialize, Deserialize)]
pub struct NestedCase {
    /// which nested tag carries the payload: 0=CERT 1=DELE 2=SREP
    pub which: u8,
    /// 0 = valid nested message, 1 = random aligned bytes, 2 = truncated nested message, 3 = nested three deep,
    /// 4 = a chain of valid nested messages `depth` levels deep (CERT{DELE{SREP{CERT{...}}}})
    pub shape: u8,
    #[serde(default)]
    pub depth: u16,
    pub inner: ApiMsg,
    pub junk: Hex,
    pub cut: u16,
    pub others: ApiMsg,
}

fn nested_case() -> impl Strategy<Value = NestedCase> {
    (0u8..4, 0u8..6, api_msg(16), bytes(aligned_len(32)), any::<u16>(), api_msg(8), prop_oneof![4 => 1u16..=12, 2 => 1u16..=64, 1 => 64u16..=600]).prop_map(|(which, shape, inner, junk, cut, others, depth)| NestedCase {
        which,
        shape,
        depth,
        inner,
        junk,
        cut,
        others,
    })
}

fn nested_bytes(c: &NestedCase) -> Vec<u8> {
    let nested_tag = [rc::CERT, rc::DELE, rc::SREP][c.which as usize % 3];
    let inner_enc = c.inner.to_ref().encode();
    if c.shape % 6 == 5 {
        // one plain 4-letter tag with a big value (10,000..60,000 bytes) next to the other fields
        let mut m = c.others.to_ref();
        let big = 10_000 + (c.cut as usize % 12_500) * 4;
        m.set([rc::NONC, rc::PATH, rc::ROOT, rc::ZZZZ][c.which as usize % 4], vec![0x7eu8; big]);
        return m.encode();
    }
    let payload: Vec<u8> = match c.shape % 6 {
        4 => {
            // innermost: the generated inner message; then `depth` wrappers cycling through the nested tags
            let mut cur = c.inner.to_ref().encode();
            for d in 0..c.depth.min(600) {
                let t = [rc::SREP, rc::DELE, rc::CERT][d as usize % 3];
                cur = Msg::new().with(t, &cur).encode();
            }
            cur
        }
        0 => inner_enc,
        1 => c.junk.0.clone(),
        2 => {
            let words = inner_enc.len() / 4;
            let keep = idx(c.cut, words + 1) * 4;
            inner_enc[..keep].to_vec()
        }
        _ => {
            // three deep: CERT{DELE{SREP{junk}}}
            let l3 = Msg::new().with(rc::SREP, &c.junk.0).encode();
            let l2 = Msg::new().with(rc::DELE, &l3).encode();
            Msg::new().with(rc::CERT, &l2).encode()
        }
    };
    let mut m = c.others.to_ref();
    m.set(nested_tag, payload);
    m.encode()
}

/// `depth` single-field messages nested inside each other (CERT{DELE{SREP{CERT{...}}}}), innermost value 4 bytes:
/// 8 bytes per level, so 8190 levels fit the 64 KiB the property quantifies over
pub fn nested_chain(depth: usize) -> Vec<u8> {
    let mut cur = vec![1u8, 2, 3, 4];
    for d in 0..depth {
        let t = [rc::SREP, rc::DELE, rc::CERT][d % 3];
        cur = Msg::new().with(t, &cur).encode();
    }
    cur
}

#[derive(Debug, Clone, Serialize, Deserialize)]
pub struct DepthCase {
    pub depth: u32,
}

/// Display of very deep nesting is probed in a child process (a stack overflow is a signal, not an unwind)
fn deep_display(ctx: &mut Ctx, c: &DepthCase) -> Res {
    ctx.eval();
    let exe = std::env::current_exe().unwrap();
    let out = std::process::Command::new(exe).args(["probe-display", &c.depth.to_string()]).env("RUST_BACKTRACE", "0").stdin(std::process::Stdio::null()).output();
    let out = match out {
        Ok(o) => o,
        Err(e) => {
            ctx.inconclusive(format!("probe-display spawn failed: {}", e));
            return Ok(());
        }
    };
    use std::os::unix::process::ExitStatusExt;
    let cls = if c.depth < 512 { "<512" } else if c.depth < 2048 { "512..2047" } else { ">=2048" };
    ctx.class(&format!("deep-display:depth{}", cls));
    if out.status.code() == Some(0) {
        if c.depth >= 512 {
            ctx.nontrivial(&("deep", c.depth));
        }
        return Ok(());
    }
    if out.status.code() == Some(3) {
        return ctx.fail("display-panic|deep-nesting", format!("Display panicked for {} nested levels ({} bytes)", c.depth, nested_chain(c.depth as usize).len()));
    }
    ctx.fail(
        "display-stack-overflow|deep-nesting",
        format!(
            "formatting an accepted message of {} bytes made of {} nested single-field messages killed the process (signal {:?}) on a thread with the default 2 MiB stack: unbounded recursion in to_string()",
            nested_chain(c.depth as usize).len(),
            c.depth,
            out.status.signal()
        ),
    )
}

// ---------------------------------------------------------------- messages of an exact (large) encoded size

/// a message over `tags` whose encoding is exactly `total` bytes, the value bytes spread by `shape`
/// (0: all in the last value, 1: all in the first, 2: evenly, 3: all but 4 bytes in the first)
#[derive(Debug, Clone, Serialize, Deserialize)]
struct SizedCase {
    tags: Vec<u8>,
    total: u32,
    shape: u8,
}

impl SizedCase {
    fn msg(&self) -> Option<ApiMsg> {
        let n = self.tags.len();
        let header = if n == 0 { 4 } else { 8 * n };
        let body = (self.total as usize).checked_sub(header)?;
        if n == 0 {
            return if body == 0 { Some(ApiMsg { fields: vec![] }) } else { None };
        }
        let words = body / 4;
        let mut lens = vec![0usize; n];
        match self.shape % 4 {
            0 => lens[n - 1] = words,
            1 => lens[0] = words,
            2 => {
                for (i, l) in lens.iter_mut().enumerate() {
                    *l = words / n + usize::from(i < words % n);
                }
            }
            _ => {
                if n >= 2 && words >= 1 {
                    lens[0] = words - 1;
                    lens[n - 1] = 1;
                } else {
                    lens[0] = words;
                }
            }
        }
        let fields = self.tags.iter().zip(lens).enumerate().map(|(i, (t, w))| (*t, Hex((0..w * 4).map(|j| (j as u8).wrapping_mul(31).wrapping_add(i as u8 * 7 + 1)).collect()))).collect();
        Some(ApiMsg { fields })
    }
}

fn sized_cases(thorough: bool) -> Vec<SizedCase> {
    let tagsets: Vec<Vec<u8>> = vec![vec![11], vec![2, 11], vec![0, 5, 17], vec![1, 2, 3, 4, 16], (0u8..18).collect()];
    let mut totals: Vec<u32> = (65_400u32..=65_536).step_by(4).collect();
    totals.extend([32_764, 32_768, 32_772, 16_384, 65_540, 65_544, 131_072, 131_076]);
    if thorough {
        totals.extend((65_000u32..65_400).step_by(4));
        totals.extend([262_144, 1_048_576, 1_048_580]);
    }
    let mut out = vec![];
    for tags in &tagsets {
        for total in &totals {
            for shape in 0..4u8 {
                if tags.len() == 1 && shape > 0 {
                    continue;
                }
                out.push(SizedCase { tags: tags.clone(), total: *total, shape });
            }
        }
    }
    out
}

fn sized_check(mode: Mode, ctx: &mut Ctx, c: &SizedCase) -> Res {
    let m = match c.msg() {
        Some(m) => m,
        None => return Ok(()),
    };
    if mode == Mode::C05 {
        api_roundtrip(ctx, &m)?;
    }
    // the decoder is specified for inputs up to 64 KiB
    if c.total <= 65_536 {
        let enc = m.to_ref().encode();
        if enc.len() != c.total as usize {
            return Err(viol("harness-sized", format!("built {} bytes for total {}", enc.len(), c.total)));
        }
        check(mode, ctx, &enc, "sized")?;
        // the same message with its last offset pushed to / past the end
        if m.fields.len() >= 2 {
            let n = m.fields.len();
            for off in [c.total - 8 * n as u32, c.total - 8 * n as u32 + 4, 65_536, 65_532] {
                let mut x = enc.clone();
                let p = 4 + 4 * (n - 2);
                x[p..p + 4].copy_from_slice(&off.to_le_bytes());
                check(mode, ctx, &x, "sized-last-offset")?;
            }
        }
    }
    Ok(())
}

// ---------------------------------------------------------------- drivers

#[derive(Debug, Clone, Serialize, Deserialize)]
struct RawCase {
    bytes: Hex,
}

pub fn run(mode: Mode, ctx: &mut Ctx) -> Vec<Violation> {
    if mode == Mode::C05 && ctx.shard % 2 == 1 {
        crate::srvlab::install_logger(log::LevelFilter::Trace);
        *crate::srvlab::LOGGER.keep.lock().unwrap() = false;
        ctx.class("logging-on-at-trace");
    }
    let mut out = vec![];
    let t = ctx.tier;

    if mode == Mode::C05 {
        out.extend(run_prop(ctx, "api", t.pick(60_000, 600_000), 2000, api_msg(512), |ctx, c| api_roundtrip(ctx, c)));
        out.extend(run_prop(ctx, "api-sequences", t.pick(60_000, 600_000), 2000, api_ops(), |ctx, ops| {
            ctx.sample("api-sequences", 2, ops);
            api_sequence(ctx, ops)
        }));
        // occasionally very large messages (up to 64 KiB total)
        out.extend(run_prop(ctx, "api-large", t.pick(1_000, 10_000), 500, api_msg(4096), |ctx, c| {
            api_roundtrip(ctx, c)
        }));
    }

    if mode == Mode::C06 {
        // decoding and printing must also return when the embedding program has logging switched on (the log
        // macros evaluate their arguments only then): short word strings exhaustively and mutants, at Trace level
        crate::srvlab::install_logger(log::LevelFilter::Trace);
        *crate::srvlab::LOGGER.keep.lock().unwrap() = false;
        let total = exh_total(4);
        out.extend(run_enum(ctx, "exh-words-logged", total, |i| RawCase { bytes: Hex(exh_string(i)) }, |ctx, c| check(mode, ctx, &c.bytes.0, "exh-logged")));
        out.extend(run_prop(ctx, "mutants-logged", t.pick(40_000, 400_000), 1000, mut_case(64), |ctx, c| {
            let base = c.base.to_ref().encode();
            let x = apply_muts(&base, c.base.fields.len(), &c.muts);
            check(mode, ctx, &x, "mut-logged")
        }));
        // the remaining sub-checks: every second worker process keeps logging on
        log::set_max_level(if ctx.shard % 2 == 1 { log::LevelFilter::Trace } else { log::LevelFilter::Off });
    }

    // messages whose encoding is exactly N bytes around 64 KiB (offsets near and beyond 16-bit range)
    {
        let cases = sized_cases(t == Tier::Thorough);
        out.extend(run_enum(ctx, "sized-grid", cases.len() as u64, |i| cases[i as usize].clone(), |ctx, c| sized_check(mode, ctx, c)));
    }

    // (b) exhaustive word strings
    let max_len = t.pick(6, 7);
    let total = exh_total(max_len);
    let v = run_enum(ctx, "exh-words", total, |i| RawCase { bytes: Hex(exh_string(i)) }, |ctx, c| {
        // fingerprints for exhaustive cases are counted exactly, not hashed
        let r = check(mode, ctx, &c.bytes.0, "exh");
        r
    });
    if v.is_empty() && ctx.shard == 0 {
        ctx.stats.exhaustive_spaces.push(format!("all {} word strings of length 0..={} over the 16-word alphabet {:x?}", total, max_len, ALPHABET));
    }
    out.extend(v);
    if ctx.shard == 0 {
        for i in [0u64, 17, 4369, 70_000, 1_000_000] {
            if i < total {
                let s = RawCase { bytes: Hex(exh_string(i)) };
                ctx.sample("exh-words", 5, &s);
            }
        }
    }

    // (b1) byte-granular lengths: every word string of up to 4 words followed by 1..=3 further bytes (two fills), and
    // cut 1..=3 bytes short — whole-word generators never produce a length that is not a multiple of four
    {
        let words = exh_total(4);
        let v = run_enum(ctx, "exh-bytes", words * 12, |i| {
            let mut b = exh_string(i / 12);
            let k = (i % 12) as usize;
            let n = k % 3 + 1;
            match k / 3 {
                0 => b.extend(std::iter::repeat(0u8).take(n)),
                1 => b.extend(std::iter::repeat(0xaau8).take(n)),
                2 => b.extend([1u8, 0, 0].iter().take(n)),
                _ => {
                    let keep = b.len().saturating_sub(n);
                    b.truncate(keep);
                }
            }
            RawCase { bytes: Hex(b) }
        }, |ctx, c| check(mode, ctx, &c.bytes.0, "exh-bytes"));
        if v.is_empty() && ctx.shard == 0 {
            ctx.stats.exhaustive_spaces.push(format!("all {} word strings of length 0..=4, each with 1..=3 extra bytes (three fills) and with 1..=3 bytes cut off", words));
        }
        out.extend(v);
    }

    // (b2) exhaustive near-tag words: every known tag with one byte replaced by every value
    let v = run_enum(ctx, "near-tags", near_tag_total(), |i| RawCase { bytes: Hex(near_tag_message(i)) }, |ctx, c| check(mode, ctx, &c.bytes.0, "near-tag"));
    if v.is_empty() && ctx.shard == 0 {
        ctx.stats.exhaustive_spaces.push("every known tag x byte position x byte value (18,432 tag words) in three message shapes".into());
    }
    out.extend(v);

    // (c) structured mutants
    out.extend(run_prop(ctx, "mutants", t.pick(300_000, 3_000_000), 3000, mut_case(64), |ctx, c| {
        let base = c.base.to_ref().encode();
        let x = apply_muts(&base, c.base.fields.len(), &c.muts);
        let kind = format!("mut-{}", mut_kind(&c.muts[0]));
        ctx.sample("mutant", 3, c);
        check(mode, ctx, &x, &kind)
    }));
    out.extend(run_prop(ctx, "mutants-large", t.pick(2_000, 20_000), 500, mut_case(4096), |ctx, c| {
        let base = c.base.to_ref().encode();
        if base.len() > 65_536 {
            return Ok(());
        }
        let x = apply_muts(&base, c.base.fields.len(), &c.muts);
        check(mode, ctx, &x, "mut-large")
    }));

    if mode == Mode::C06 {
        // random byte strings of any length 0..=65536
        let lens = prop_oneof![4 => 0usize..=64, 3 => 0usize..=2048, 1 => 0usize..=65_536];
        out.extend(run_prop(ctx, "random", t.pick(40_000, 400_000), 1000, bytes(lens).prop_map(|b| RawCase { bytes: b }), |ctx, c| {
            check(mode, ctx, &c.bytes.0, "random")
        }));
        // arithmetic-targeting: count in a fixed list × small bodies
        let counts = prop_oneof![3 => prop::sample::select(vec![0u32, 1, 2, 3, 17, 18, 19, 20, 21, 32, 64, 255, 256, 1000, 1023, 1024, 1025, 1 << 30, u32::MAX, 0x4000_0001, 0x2000_0001]), 1 => 2u32..=40];
        out.extend(run_prop(
            ctx,
            "count-arith",
            t.pick(60_000, 600_000),
            1000,
            (counts, prop_oneof![2 => proptest::collection::vec(boundary_word(), 0..12), 2 => proptest::collection::vec(prop_oneof![4 => (0u32..64).prop_map(|w| w * 4), 1 => boundary_word()], 12..80)]).prop_map(|(c, ws)| {
                let mut b = c.to_le_bytes().to_vec();
                for w in ws {
                    b.extend_from_slice(&w.to_le_bytes());
                }
                RawCase { bytes: Hex(b) }
            }),
            |ctx, c| check(mode, ctx, &c.bytes.0, "count-arith"),
        ));
        // deep nesting up to what fits into 64 KiB (8190 levels), one child process per depth
        let depths: Vec<u32> = vec![1, 3, 8, 64, 511, 512, 1000, 2047, 2048, 3000, 4096, 6000, 8189, 8190];
        out.extend(run_enum(ctx, "deep-display", depths.len() as u64, |i| DepthCase { depth: depths[i as usize] }, |ctx, c| deep_display(ctx, c)));
        out.extend(run_prop(ctx, "nested-display", t.pick(80_000, 800_000), 2000, nested_case(), |ctx, c| {
            let x = nested_bytes(c);
            ctx.sample("nested", 3, c);
            check(mode, ctx, &x, &format!("nested-shape{}{}", c.shape % 6, if c.shape % 6 == 4 { format!(":depth{}", if c.depth < 8 { "<8" } else if c.depth < 64 { "8-63" } else { ">=64" }) } else { String::new() }))
        }));
    }
    out
}

pub fn replay(mode: Mode, ctx: &mut Ctx, sub: &str, case: &Value) -> Res {
    if mode == Mode::C06 {
        // a C06 case is replayed with logging on (a superset of what any worker process ran with)
        crate::srvlab::install_logger(log::LevelFilter::Trace);
        *crate::srvlab::LOGGER.keep.lock().unwrap() = false;
    }
    let sub = sub.strip_suffix("-logged").unwrap_or(sub);
    match sub {
        "sized-grid" => replay_case::<SizedCase, _>(ctx, case, |ctx, c| sized_check(mode, ctx, c)),
        "api" | "api-large" => replay_case::<ApiMsg, _>(ctx, case, |ctx, c| api_roundtrip(ctx, c)),
        "api-sequences" => replay_case::<Vec<ApiOp>, _>(ctx, case, |ctx, c| api_sequence(ctx, c)),
        "exh-words" | "exh-bytes" | "near-tags" | "random" | "count-arith" | "raw" => replay_case::<RawCase, _>(ctx, case, |ctx, c| check(mode, ctx, &c.bytes.0, "replay")),
        "mutants" | "mutants-large" => replay_case::<MutCase, _>(ctx, case, |ctx, c| {
            let base = c.base.to_ref().encode();
            let x = apply_muts(&base, c.base.fields.len(), &c.muts);
            check(mode, ctx, &x, "replay")
        }),
        "deep-display" => replay_case::<DepthCase, _>(ctx, case, |ctx, c| deep_display(ctx, c)),
        "nested-display" => replay_case::<NestedCase, _>(ctx, case, |ctx, c| check(mode, ctx, &nested_bytes(c), "replay")),
        _ => Err(viol("bad-replay-file", format!("unknown sub {}", sub))),
    }
}
