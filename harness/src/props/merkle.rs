//! C04 — Merkle inclusion proofs are complete and binding for every batch shape; tree reuse.

use crate::engine::*;
use crate::gen::*;
use crate::refcrypto::*;
use proptest::prelude::*;
use roughenough::merkle::MerkleTree;
use roughenough::version::Version;
use serde::{Deserialize, Serialize};
use serde_json::Value;

fn ver(ietf: bool) -> Version {
    if ietf {
        Version::RfcDraft13
    } else {
        Version::Google
    }
}

#[derive(Debug, Clone, Serialize, Deserialize)]
pub struct TreeCase {
    pub ietf: bool,
    pub leaves: Vec<Hex>,
    /// selector for the position examined by the binding check, and for which bit/element to disturb
    pub pick: u16,
    pub bit: u16,
}

#[derive(Debug, Clone, Serialize, Deserialize)]
pub struct HistoryCase {
    pub ietf: bool,
    pub batches: Vec<Vec<Hex>>,
    /// extra reset() calls before batch k (the server resets both trees on every loop pass, also when nothing was queued)
    #[serde(default)]
    pub idle: Vec<u32>,
}

/// deterministic leaves for the exhaustive parts: distinct, varying length (incl. empty for k = 0)
fn det_leaf(salt: u32, k: usize) -> Vec<u8> {
    let len = (k * 7 + salt as usize) % 41;
    let mut v = Vec::with_capacity(len + 6);
    for j in 0..len {
        v.push((k * 31 + j * 17 + salt as usize) as u8);
    }
    // distinctness tag
    v.extend_from_slice(&(k as u16).to_le_bytes());
    v.extend_from_slice(&salt.to_le_bytes());
    if k == 0 && salt % 2 == 0 {
        v.clear(); // an empty leaf
    }
    v
}

fn det_leaves(salt: u32, n: usize) -> Vec<Hex> {
    (0..n).map(|k| Hex(det_leaf(salt, k))).collect()
}

fn leaf_strategy() -> impl Strategy<Value = Hex> {
    prop_oneof![
        1 => Just(Hex(vec![])),
        2 => bytes(1usize..=1),
        6 => bytes(1usize..=80),
        1 => bytes(1024usize..=1500),
    ]
}

fn n_strategy() -> impl Strategy<Value = usize> {
    prop_oneof![
        3 => 1usize..=8,
        2 => prop::sample::select(vec![15usize, 16, 17, 31, 32, 33, 63, 64, 65, 127, 128, 129, 254, 255]),
        3 => 1usize..=64,
        2 => 1usize..=255,
    ]
}

fn leaves_strategy() -> impl Strategy<Value = Vec<Hex>> {
    (n_strategy(), 0u8..4).prop_flat_map(|(n, class)| {
        proptest::collection::vec(leaf_strategy(), n).prop_map(move |mut v| {
            match class {
                // all distinct: append the position
                0 | 1 => {
                    for (i, l) in v.iter_mut().enumerate() {
                        l.0.extend_from_slice(&(i as u16).to_le_bytes());
                    }
                }
                // some equal
                2 => {
                    let n = v.len();
                    if n >= 2 {
                        let a = v[0].clone();
                        v[n - 1] = a.clone();
                        v[n / 2] = a;
                    }
                }
                // all distinct but sharing a long common prefix (distinguished only beyond byte 64)
                _ => {
                    let plen = 64 + v.len() % 37;
                    for (i, l) in v.iter_mut().enumerate() {
                        let mut x = vec![0xa5u8; plen];
                        x.extend_from_slice(&(i as u16).to_le_bytes());
                        x.extend_from_slice(&l.0);
                        l.0 = x;
                    }
                }
            }
            v
        })
    })
}

fn tree_case() -> impl Strategy<Value = TreeCase> {
    (any::<bool>(), leaves_strategy(), any::<u16>(), any::<u16>()).prop_map(|(ietf, leaves, pick, bit)| TreeCase { ietf, leaves, pick, bit })
}

fn history_case() -> impl Strategy<Value = HistoryCase> {
    let idle = prop_oneof![6 => Just(0u32), 2 => 1u32..=3, 2 => prop::sample::select(IDLE_COUNTS.to_vec()), 1 => 0u32..=600];
    (any::<bool>(), proptest::collection::vec((leaves_strategy(), idle), 2..=8)).prop_map(|(ietf, b)| {
        let (batches, idle) = b.into_iter().unzip();
        HistoryCase { ietf, batches, idle }
    })
}

struct Built {
    root: Vec<u8>,
    paths: Vec<Vec<u8>>,
}

fn build_on(tree: &mut MerkleTree, leaves: &[Hex]) -> Result<Built, String> {
    build_on_order(tree, leaves, 0)
}

/// positions are asked for in the order `order` selects: 0 ascending, 1 descending, 2 odd positions then even ones,
/// 3 even then odd, 4 ascending with every position asked twice, 5.. a stride permutation
fn query_order(n: usize, order: u8) -> Vec<usize> {
    match order % 6 {
        0 => (0..n).collect(),
        1 => (0..n).rev().collect(),
        2 => (0..n).filter(|i| i % 2 == 1).chain((0..n).filter(|i| i % 2 == 0)).collect(),
        3 => (0..n).filter(|i| i % 2 == 0).chain((0..n).filter(|i| i % 2 == 1)).collect(),
        4 => (0..n).flat_map(|i| [i, i]).collect(),
        _ => {
            // i -> i * s mod n for an s coprime to n
            let mut s = (order as usize / 6) * 2 + 3;
            let gcd = |mut a: usize, mut b: usize| {
                while b != 0 {
                    let t = a % b;
                    a = b;
                    b = t;
                }
                a
            };
            while n > 1 && gcd(s, n) != 1 {
                s += 1;
            }
            (0..n).map(|i| (i * s) % n.max(1)).collect()
        }
    }
}

fn build_on_order(tree: &mut MerkleTree, leaves: &[Hex], order: u8) -> Result<Built, String> {
    no_unwind(|| {
        for l in leaves {
            tree.push_leaf(&l.0);
        }
        let root = tree.compute_root();
        let mut paths = vec![vec![]; leaves.len()];
        for i in query_order(leaves.len(), order) {
            paths[i] = tree.get_paths(i);
        }
        Built { root, paths }
    })
}

/// node width from the issued paths (so C04 never judges *which* width is used — that is C02's business)
fn inferred_width(n: usize, b: &Built) -> Result<usize, String> {
    let depth = ceil_log2(n);
    if depth == 0 {
        return Ok(b.root.len());
    }
    let pl = b.paths[0].len();
    if pl % depth != 0 {
        return Err(format!("path length {} is not a multiple of the depth {}", pl, depth));
    }
    let w = pl / depth;
    if w != 32 && w != 64 {
        return Err(format!("inferred node width {} (path {} bytes, depth {})", w, pl, depth));
    }
    Ok(w)
}

fn indep_root(w: usize, rootlen: usize, index: usize, leaf: &[u8], path: &[u8]) -> Option<Vec<u8>> {
    climb(TreeParams { width: w }, index as u64, leaf, path).map(|mut r| {
        r.truncate(rootlen);
        r
    })
}

pub fn completeness(ctx: &mut Ctx, ietf: bool, leaves: &[Hex], kind: &str) -> Res {
    let n = leaves.len();
    let mut tree = MerkleTree::new(ver(ietf));
    let b = match build_on(&mut tree, leaves) {
        Ok(b) => b,
        Err(p) => return ctx.fail(format!("build-panic|{}", panic_site(&p)), format!("building a tree of {} leaves panicked: {}", n, p)),
    };
    let w = match inferred_width(n, &b) {
        Ok(w) => w,
        Err(e) => return ctx.fail("path-length", format!("n={} ietf={}: {}", n, ietf, e)),
    };
    let depth = ceil_log2(n);
    for i in 0..n {
        ctx.eval();
        if b.paths[i].len() != depth * w {
            return ctx.fail("path-length", format!("n={} i={} path {} bytes, expected {}*{}", n, i, b.paths[i].len(), depth, w));
        }
        let r1 = no_unwind(|| tree.root_from_paths(i, &leaves[i].0, &b.paths[i]));
        match r1 {
            Ok(r) if r == b.root => {}
            Ok(r) => return ctx.fail("own-recompute-mismatch", format!("n={} i={} ietf={}: root_from_paths {} != root {}", n, i, ietf, crate::refcodec::hex(&r), crate::refcodec::hex(&b.root))),
            Err(p) => return ctx.fail("own-recompute-panic", format!("n={} i={}: {}", n, i, p)),
        }
        match indep_root(w, b.root.len(), i, &leaves[i].0, &b.paths[i]) {
            Some(r) if r == b.root => {}
            other => {
                return ctx.fail(
                    "independent-climb-mismatch",
                    format!("n={} i={} ietf={} width={}: independent climb gives {:?}, signed root {}", n, i, ietf, w, other.map(|r| crate::refcodec::hex(&r)), crate::refcodec::hex(&b.root)),
                )
            }
        }
    }
    let odd_level = {
        let mut c = n;
        let mut odd = false;
        while c > 1 {
            if c % 2 == 1 {
                odd = true;
            }
            c = (c + 1) / 2;
        }
        odd
    };
    ctx.class(&format!("{}:complete:{}:{}", kind, if ietf { "ietf" } else { "classic" }, if odd_level { "odd-level" } else { "power-shape" }));
    if n >= 3 && odd_level {
        ctx.nontrivial(&("complete", ietf, leaves));
    }
    Ok(())
}

fn distinct(leaves: &[Hex]) -> bool {
    let mut s = std::collections::HashSet::new();
    leaves.iter().all(|l| s.insert(&l.0))
}

/// Binding negatives for position i; `all_indices` = try every other in-range index (else a sample).
pub fn binding(ctx: &mut Ctx, ietf: bool, leaves: &[Hex], i: usize, bit: u16, kind: &str) -> Res {
    let n = leaves.len();
    if n < 2 || !distinct(leaves) {
        return Ok(());
    }
    let mut tree = MerkleTree::new(ver(ietf));
    let b = match build_on(&mut tree, leaves) {
        Ok(b) => b,
        Err(p) => return ctx.fail(format!("build-panic|{}", panic_site(&p)), p),
    };
    let w = match inferred_width(n, &b) {
        Ok(w) => w,
        Err(e) => return ctx.fail("path-length", e),
    };
    let path = b.paths[i].clone();
    let root = b.root.clone();
    let rl = root.len();
    // a negative "recomputes the root" if either the product's own verifier or the independent one says so
    let recomputes = |tree: &MerkleTree, idx: usize, leaf: &[u8], p: &[u8]| -> (bool, bool) {
        let own = matches!(no_unwind(|| tree.root_from_paths(idx, leaf, p)), Ok(r) if r == root);
        let ind = matches!(indep_root(w, rl, idx, leaf, p), Some(r) if r == root);
        (own, ind)
    };
    let mut bad = |ctx: &mut Ctx, what: &str, detail: String, r: (bool, bool)| -> Res {
        ctx.eval();
        if r.0 || r.1 {
            return ctx.fail(format!("binding-broken|{}", what), format!("n={} i={} ietf={}: {} still recomputes the signed root (own={}, independent={})", n, i, ietf, detail, r.0, r.1));
        }
        Ok(())
    };
    // another leaf's data (every j)
    for j in 0..n {
        if j != i {
            let r = recomputes(&tree, i, &leaves[j].0, &path);
            bad(ctx, "other-leaf", format!("leaf {} presented at index {}", j, i), r)?;
        }
    }
    // every other in-range index
    for j in 0..n {
        if j != i {
            let r = recomputes(&tree, j, &leaves[i].0, &path);
            bad(ctx, "other-index", format!("index {} instead of {}", j, i), r)?;
        }
    }
    let elems = path.len() / w;
    for e in 0..elems {
        // element e bit-flipped
        let mut p = path.clone();
        let bitpos = (bit as usize + e * 13) % (w * 8);
        p[e * w + bitpos / 8] ^= 1 << (bitpos % 8);
        let r = recomputes(&tree, i, &leaves[i].0, &p);
        bad(ctx, "element-changed", format!("path element {} with bit {} flipped", e, bitpos), r)?;
        // element e removed
        let mut p = path.clone();
        p.drain(e * w..(e + 1) * w);
        let r = recomputes(&tree, i, &leaves[i].0, &p);
        bad(ctx, "element-removed", format!("path element {} removed", e), r)?;
    }
    for e in 0..=elems {
        // element inserted at position e (copy of a neighbour, or zeros)
        for fill in 0..2 {
            let ins: Vec<u8> = if fill == 0 || elems == 0 { vec![0u8; w] } else { path[(e.min(elems - 1)) * w..(e.min(elems - 1) + 1) * w].to_vec() };
            let mut p = path.clone();
            let at = e * w;
            p.splice(at..at, ins);
            let r = recomputes(&tree, i, &leaves[i].0, &p);
            bad(ctx, "element-added", format!("element inserted at position {} (fill {})", e, fill), r)?;
        }
    }
    // a partial element (1 byte, half a node, a node minus one byte, a node of the other profile's width) appended
    for extra in [1usize, w / 2, w - 1, 32] {
        if extra % w == 0 {
            continue;
        }
        let mut p = path.clone();
        p.extend(std::iter::repeat(0x5au8).take(extra));
        let r = recomputes(&tree, i, &leaves[i].0, &p);
        bad(ctx, "partial-element-appended", format!("{} extra bytes after the path", extra), r)?;
        let mut p = path.clone();
        let keep = p.len().saturating_sub(extra);
        p.truncate(keep);
        if p.len() != path.len() {
            let r = recomputes(&tree, i, &leaves[i].0, &p);
            bad(ctx, "partial-element-removed", format!("last {} bytes of the path cut off", extra), r)?;
        }
    }
    ctx.class(&format!("{}:binding:{}", kind, if ietf { "ietf" } else { "classic" }));
    ctx.nontrivial(&("binding", ietf, i, leaves));
    Ok(())
}

/// numbers of consecutive resets around the wrap-around points of 8- and 16-bit counters
const IDLE_COUNTS: [u32; 19] = [126, 127, 128, 253, 254, 255, 256, 257, 258, 510, 511, 512, 513, 1023, 1024, 65_534, 65_535, 65_536, 65_537];

pub fn reuse(ctx: &mut Ctx, ietf: bool, batches: &[Vec<Hex>], kind: &str) -> Res {
    reuse_idle(ctx, ietf, batches, &[], kind)
}

pub fn reuse_idle(ctx: &mut Ctx, ietf: bool, batches: &[Vec<Hex>], idle: &[u32], kind: &str) -> Res {
    // every history is run under three families of query orders
    for order_salt in [0u8, 1, 2] {
        reuse_idle_order(ctx, ietf, batches, idle, kind, order_salt)?;
    }
    Ok(())
}

fn reuse_idle_order(ctx: &mut Ctx, ietf: bool, batches: &[Vec<Hex>], idle: &[u32], kind: &str, order_salt: u8) -> Res {
    let mut tree = MerkleTree::new(ver(ietf));
    let mut prev_n = 0usize;
    let mut nt = false;
    for (k, leaves) in batches.iter().enumerate() {
        ctx.eval();
        let extra = idle.get(k).copied().unwrap_or(0);
        if let Err(p) = no_unwind(|| {
            for _ in 0..=extra {
                tree.reset()
            }
        }) {
            return ctx.fail("reset-panic", p);
        }
        if extra > 0 && !tree.is_empty() {
            return ctx.fail("not-empty-after-reset", format!("is_empty() is false after {} resets", extra + 1));
        }
        // the order in which positions are asked for varies from batch to batch (the fresh tree is asked in ascending order)
        let reused = match build_on_order(&mut tree, leaves, (k as u8).wrapping_mul(5).wrapping_add(leaves.len() as u8).wrapping_add(order_salt)) {
            Ok(b) => b,
            Err(p) => return ctx.fail(format!("reuse-build-panic|{}", panic_site(&p)), format!("batch {} (n={}) after n={} panicked: {}", k, leaves.len(), prev_n, p)),
        };
        let mut fresh_tree = MerkleTree::new(ver(ietf));
        let fresh = match build_on(&mut fresh_tree, leaves) {
            Ok(b) => b,
            Err(p) => return ctx.fail(format!("build-panic|{}", panic_site(&p)), p),
        };
        if reused.root != fresh.root {
            return ctx.fail("reuse-root-differs", format!("ietf={} batch {} of sizes {:?}: root on reused tree differs from a fresh tree", ietf, k, batches.iter().map(|b| b.len()).collect::<Vec<_>>()));
        }
        if reused.paths != fresh.paths {
            let i = (0..leaves.len()).find(|i| reused.paths[*i] != fresh.paths[*i]).unwrap();
            return ctx.fail("reuse-path-differs", format!("ietf={} batch {} of sizes {:?}: path for position {} differs from a fresh tree", ietf, k, batches.iter().map(|b| b.len()).collect::<Vec<_>>(), i));
        }
        // proofs issued by the reused tree verify on the reused tree
        for i in 0..leaves.len() {
            match no_unwind(|| tree.root_from_paths(i, &leaves[i].0, &reused.paths[i])) {
                Ok(r) if r == reused.root => {}
                _ => return ctx.fail("reuse-proof-invalid", format!("batch {} position {}", k, i)),
            }
        }
        if k > 0 && (prev_n > leaves.len() || extra >= 100) {
            nt = true;
        }
        prev_n = leaves.len();
    }
    ctx.class(&format!("{}:reuse:{}", kind, if nt { "after-larger" } else { "nondecreasing" }));
    if nt {
        ctx.nontrivial(&("reuse", ietf, batches.iter().map(|b| b.len()).collect::<Vec<_>>(), &batches[0]));
    }
    Ok(())
}

const BOUNDARY: [usize; 22] = [1, 2, 3, 4, 5, 7, 8, 9, 15, 16, 17, 31, 32, 33, 63, 64, 65, 127, 128, 129, 254, 255];

#[derive(Debug, Clone, Serialize, Deserialize)]
struct SizeCase {
    salt: u32,
    ietf: bool,
    n: usize,
}
#[derive(Debug, Clone, Serialize, Deserialize)]
struct PairCase {
    salt: u32,
    ietf: bool,
    a: usize,
    b: usize,
}
#[derive(Debug, Clone, Serialize, Deserialize)]
struct IdleCase {
    salt: u32,
    ietf: bool,
    a: usize,
    idle: u32,
    b: usize,
}
#[derive(Debug, Clone, Serialize, Deserialize)]
struct BindCase {
    salt: u32,
    ietf: bool,
    n: usize,
    i: usize,
}

pub fn run(ctx: &mut Ctx) -> Vec<Violation> {
    // every second worker process runs with logging switched on at Trace (log arguments are only evaluated then);
    // records are formatted and dropped
    if ctx.shard % 2 == 1 {
        crate::srvlab::install_logger(log::LevelFilter::Trace);
        *crate::srvlab::LOGGER.keep.lock().unwrap() = false;
        ctx.class("logging-on-at-trace");
    }
    let mut out = vec![];
    let t = ctx.tier;
    let salt = (ctx.seed as u32).wrapping_mul(2_654_435_761);

    // completeness: exhaustive over n = 1..=255 x every position x both profiles
    let v = run_enum(ctx, "complete-exh", 510, |i| SizeCase { salt, ietf: i >= 255, n: (i % 255) as usize + 1 }, |ctx, c| completeness(ctx, c.ietf, &det_leaves(c.salt, c.n), "exh"));
    if v.is_empty() && ctx.shard == 0 {
        ctx.stats.exhaustive_spaces.push("completeness: every leaf count 1..=255 x every position x both hash profiles (65,280 proofs; leaves deterministic, distinct, lengths 0..=46)".into());
        ctx.sample("complete-exh", 1, &SizeCase { salt, ietf: true, n: 5 });
    }
    out.extend(v);

    // reuse: ordered size pairs
    let v = match t {
        Tier::Quick => run_enum(ctx, "reuse-pairs", 2 * 22 * 22, |i| { let k = (i % 484) as usize; PairCase { salt, ietf: i >= 484, a: BOUNDARY[k / 22], b: BOUNDARY[k % 22] } }, |ctx, c| reuse(ctx, c.ietf, &[det_leaves(c.salt, c.a), det_leaves(c.salt ^ 1, c.b)], "pairs")),
        Tier::Thorough => run_enum(ctx, "reuse-pairs", 2 * 255 * 255, |i| { let k = (i % 65_025) as usize; PairCase { salt, ietf: i >= 65_025, a: k / 255 + 1, b: k % 255 + 1 } }, |ctx, c| reuse(ctx, c.ietf, &[det_leaves(c.salt, c.a), det_leaves(c.salt ^ 1, c.b)], "pairs")),
    };
    if v.is_empty() && ctx.shard == 0 {
        ctx.stats.exhaustive_spaces.push(t.pick("reuse: all ordered pairs over 22 boundary sizes x both profiles", "reuse: all 65,025 ordered size pairs (1..=255)^2 x both profiles").to_string());
        ctx.sample("reuse-pairs", 1, &PairCase { salt, ietf: false, a: 9, b: 4 });
    }
    out.extend(v);

    // binding: every (n, i) in thorough, boundary sizes in quick
    let v = match t {
        Tier::Quick => {
            let mut cases = vec![];
            for ietf in [false, true] {
                for &n in BOUNDARY.iter().filter(|n| **n >= 2 && **n <= 129) {
                    for i in [0, 1, n / 2, n - 1] {
                        if i < n {
                            cases.push(BindCase { salt, ietf, n, i });
                        }
                    }
                }
            }
            run_enum(ctx, "binding-grid", cases.len() as u64, |k| cases[k as usize].clone(), |ctx, c| binding(ctx, c.ietf, &det_leaves(c.salt, c.n), c.i, c.salt as u16, "grid"))
        }
        Tier::Thorough => {
            let mut cases = vec![];
            for ietf in [false, true] {
                for n in 2..=255usize {
                    for i in 0..n {
                        cases.push(BindCase { salt, ietf, n, i });
                    }
                }
            }
            let v = run_enum(ctx, "binding-grid", cases.len() as u64, |k| cases[k as usize].clone(), |ctx, c| binding(ctx, c.ietf, &det_leaves(c.salt, c.n), c.i, c.salt as u16, "grid"));
            if v.is_empty() && ctx.shard == 0 {
                ctx.stats.exhaustive_spaces.push("binding: every (n, i) with 2 <= n <= 255 x both profiles (all other leaves, all other indices, every element flipped/removed, insertion at every position)".into());
            }
            v
        }
    };
    out.extend(v);

    // a batch, then many passes with nothing queued, then another batch
    {
        let mut cases = vec![];
        for ietf in [false, true] {
            for a in [2usize, 4, 5, 64] {
                for idle in IDLE_COUNTS {
                    for b in [1usize, 2, 3, 64] {
                        cases.push(IdleCase { salt, ietf, a, idle, b });
                    }
                }
            }
        }
        out.extend(run_enum(ctx, "reuse-idle", cases.len() as u64, |k| cases[k as usize].clone(), |ctx, c| reuse_idle(ctx, c.ietf, &[det_leaves(c.salt, c.a), det_leaves(c.salt ^ 1, c.b)], &[0, c.idle], "idle")));
    }
    // random leaves: completeness + binding at a generated position
    out.extend(run_prop(ctx, "random-tree", t.pick(20_000, 200_000), 400, tree_case(), |ctx, c| {
        ctx.sample("random-tree", 2, &c.leaves.iter().take(4).collect::<Vec<_>>());
        completeness(ctx, c.ietf, &c.leaves, "rand")?;
        let i = idx(c.pick, c.leaves.len());
        binding(ctx, c.ietf, &c.leaves, i, c.bit, "rand")
    }));
    // random histories on one reused tree
    out.extend(run_prop(ctx, "history", t.pick(10_000, 100_000), 400, history_case(), |ctx, c| {
        ctx.sample("history", 2, &c.batches.iter().map(|b| b.len()).collect::<Vec<_>>());
        reuse_idle(ctx, c.ietf, &c.batches, &c.idle, "hist")
    }));
    out
}

pub fn replay(ctx: &mut Ctx, sub: &str, case: &Value) -> Res {
    crate::srvlab::install_logger(log::LevelFilter::Trace);
    *crate::srvlab::LOGGER.keep.lock().unwrap() = false;
    match sub {
        "complete-exh" => replay_case::<SizeCase, _>(ctx, case, |ctx, c| completeness(ctx, c.ietf, &det_leaves(c.salt, c.n), "replay")),
        "reuse-pairs" => replay_case::<PairCase, _>(ctx, case, |ctx, c| reuse(ctx, c.ietf, &[det_leaves(c.salt, c.a), det_leaves(c.salt ^ 1, c.b)], "replay")),
        "binding-grid" => replay_case::<BindCase, _>(ctx, case, |ctx, c| binding(ctx, c.ietf, &det_leaves(c.salt, c.n), c.i, c.salt as u16, "replay")),
        "random-tree" => replay_case::<TreeCase, _>(ctx, case, |ctx, c| {
            completeness(ctx, c.ietf, &c.leaves, "replay")?;
            binding(ctx, c.ietf, &c.leaves, idx(c.pick, c.leaves.len()), c.bit, "replay")
        }),
        "history" => replay_case::<HistoryCase, _>(ctx, case, |ctx, c| reuse_idle(ctx, c.ietf, &c.batches, &c.idle, "replay")),
        "reuse-idle" => replay_case::<IdleCase, _>(ctx, case, |ctx, c| reuse_idle(ctx, c.ietf, &[det_leaves(c.salt, c.a), det_leaves(c.salt ^ 1, c.b)], &[0, c.idle], "replay")),
        _ => Err(viol("bad-replay-file", format!("unknown sub {}", sub))),
    }
}
