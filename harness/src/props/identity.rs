//! C10 (server identity is a pure function of the seed; certificates) and C11 (midpoint/radius).

use crate::engine::*;
use crate::gen::*;
use crate::refcodec::{self as rc, hex, Msg};
use crate::refcrypto::*;
use crate::refproto::*;
use crate::reqgen::*;
use crate::srvlab::*;
use super::server::{materialize, Send};
use proptest::prelude::*;
use roughenough::key::{LongTermKey, OnlineKey};
use roughenough::version::Version;
use serde::{Deserialize, Serialize};
use serde_json::Value;
use std::time::{Duration, SystemTime, UNIX_EPOCH};

fn ver(ietf: bool) -> Version {
    if ietf {
        Version::RfcDraft13
    } else {
        Version::Google
    }
}

// ------------------------------------------------------------------------------------------- C10

#[derive(Debug, Clone, Serialize, Deserialize)]
pub struct IdCase {
    /// certify ONE online key for all entries of a restart (instead of a fresh one per certificate)
    #[serde(default)]
    pub same_online: bool,
    pub seed: Hex,
    /// per restart: the order of protocols for which certificates are made
    pub restarts: Vec<Vec<bool>>,
}

/// A certificate must be a delegation signed by `pk` under `proto`'s context and must NOT verify under the other's.
pub fn check_cert(ctx: &mut Ctx, proto: Proto, cert_bytes: &[u8], pk: &[u8], midp: Option<u64>) -> Result<Vec<u8>, Viol> {
    let fail = |ctx: &mut Ctx, sig: &str, what: String| -> Result<Vec<u8>, Viol> {
        ctx.fail(format!("cert|{}", sig), what)?;
        Ok(vec![])
    };
    let cert = match Msg::decode_known(cert_bytes) {
        Ok(c) => c,
        Err(e) => return fail(ctx, "undecodable", format!("CERT does not decode: {:?}", e)),
    };
    let (sig, dele_b) = match (cert.get(rc::SIG), cert.get(rc::DELE)) {
        (Some(s), Some(d)) if cert.fields.len() == 2 && s.len() == 64 => (s, d),
        _ => return fail(ctx, "shape", format!("CERT is not {{SIG(64), DELE}}: tags {:?}", cert.fields.iter().map(|f| rc::tag_name(f.0)).collect::<Vec<_>>())),
    };
    let dele = match Msg::decode_known(dele_b) {
        Ok(d) => d,
        Err(e) => return fail(ctx, "dele-undecodable", format!("{:?}", e)),
    };
    let (pubk, mint, maxt) = match (dele.get(rc::PUBK), dele.get(rc::MINT), dele.get(rc::MAXT)) {
        (Some(p), Some(a), Some(b)) if p.len() == 32 && a.len() == 8 && b.len() == 8 && dele.fields.len() == 3 => (p, a, b),
        _ => return fail(ctx, "dele-shape", "DELE is not {PUBK(32), MINT(8), MAXT(8)}".into()),
    };
    let mut signed = proto.dele_ctx().to_vec();
    signed.extend_from_slice(dele_b);
    if !verify(pk, &signed, sig) {
        return fail(ctx, "not-signed-by-long-term-key", format!("{} certificate does not verify under the long-term key {} with the {} delegation context", proto.name(), hex(pk), proto.name()));
    }
    let mut other = proto.other().dele_ctx().to_vec();
    other.extend_from_slice(dele_b);
    if verify(pk, &other, sig) {
        return fail(ctx, "verifies-under-other-context", format!("{} certificate also verifies under the {} delegation context", proto.name(), proto.other().name()));
    }
    let (mint, maxt) = (u64::from_le_bytes(mint.try_into().unwrap()), u64::from_le_bytes(maxt.try_into().unwrap()));
    if mint > maxt {
        return fail(ctx, "empty-window", format!("MINT {} > MAXT {}", mint, maxt));
    }
    if let Some(m) = midp {
        if m < mint || m > maxt {
            return fail(ctx, "midpoint-outside-window", format!("MIDP {} outside [{}, {}]", m, mint, maxt));
        }
    }
    Ok(pubk.to_vec())
}

fn check_identity(ctx: &mut Ctx, c: &IdCase) -> Res {
    let seed = &c.seed.0;
    let refkey = RefKey::from_seed(seed);
    let pk = refkey.public();
    let srv = sha512(&[&[0xff], &pk])[..32].to_vec();
    let mut both = (false, false);
    for (r, order) in c.restarts.iter().enumerate() {
        ctx.eval();
        let mut ltk = match no_unwind(|| LongTermKey::new(seed)) {
            Ok(k) => k,
            Err(p) => return ctx.fail("longterm-new-panic", p),
        };
        if ltk.public_key() != pk {
            return ctx.fail("public-key-not-rfc8032", format!("seed {}: announced {} but RFC 8032 gives {} (restart {})", hex(seed), hex(&ltk.public_key()), hex(&pk), r));
        }
        if ltk.srv_value() != srv.as_slice() || LongTermKey::calc_srv_value(&pk) != srv {
            return ctx.fail("srv-value-wrong", format!("seed {}: SRV {} but first32(SHA-512(0xff||pk)) = {}", hex(seed), hex(ltk.srv_value()), hex(&srv)));
        }
        let mut shared = OnlineKey::new();
        for &ietf in order {
            ctx.eval();
            let mut fresh = OnlineKey::new();
            let online = if c.same_online { &mut shared } else { &mut fresh };
            let online_pk = online.make_dele().get_field(roughenough::Tag::PUBK).map(|p| p.to_vec()).unwrap_or_default();
            let cert = match no_unwind(|| ltk.make_cert(&ver(ietf), online).encode().unwrap()) {
                Ok(c) => c,
                Err(p) => return ctx.fail("make-cert-panic", p),
            };
            let proto = if ietf { Proto::Ietf } else { Proto::Classic };
            let certified = check_cert(ctx, proto, &cert, &pk, None)?;
            if !certified.is_empty() && certified != online_pk {
                return ctx.fail("cert|wrong-online-key", format!("certificate delegates to {} but the online key is {}", hex(&certified), hex(&online_pk)));
            }
            // responses this key signs now and during the next ten minutes carry a midpoint inside that certificate's window
            for ahead in [0u64, 30, 100, 300, 600] {
                let when = std::time::SystemTime::now() + Duration::from_secs(ahead);
                let root = vec![0x5au8; if ietf { 32 } else { 64 }];
                let srep = match no_unwind(|| online.make_srep(ver(ietf), when, &root)) {
                    Ok(s) => s,
                    Err(p) => return ctx.fail("make-srep-panic", p),
                };
                let inner = srep.get_field(roughenough::Tag::SREP).and_then(|b| Msg::decode_any(b).ok());
                if let Some(midp) = inner.and_then(|m| m.get(rc::MIDP).and_then(|v| <[u8; 8]>::try_from(v).ok()).map(u64::from_le_bytes)) {
                    if let Err(v) = check_cert(ctx, proto, &cert, &pk, Some(midp)) {
                        return Err(Viol { sig: format!("{}|{}s-after-issue", v.sig, ahead), what: format!("{} ({} s after the certificate was issued)", v.what, ahead) });
                    }
                }
            }
            if ietf {
                both.1 = true
            } else {
                both.0 = true
            }
        }
    }
    ctx.class(&format!("c10:lib:restarts={}:{}", c.restarts.len().min(3), if both.0 && both.1 { "both-protocols" } else { "one-protocol" }));
    if c.restarts.len() >= 2 && both.0 && both.1 {
        ctx.nontrivial(&c.seed.0);
    }
    Ok(())
}

#[derive(Debug, Clone, Serialize, Deserialize)]
pub struct SrvIdCase {
    /// status_interval of the server in milliseconds (0 = default 600 s) and a pause before traffic so that its timers fire
    #[serde(default)]
    pub interval_ms: u16,
    #[serde(default)]
    pub pause_ms: u16,
    pub seed: Hex,
    pub restarts: u8,
    pub batch_size: u8,
    pub reqs: Vec<StdReq>,
    /// before the traffic that is examined, each responder meets a request whose reply cannot be sent (UDP source
    /// port 0): certificates sent afterwards are as good as before
    #[serde(default)]
    pub unsendable_first: bool,
    /// index into procs::IDENTITY_ZONES: TZ of the process while the server is built and serves
    #[serde(default)]
    pub tz: u8,
}

fn check_server_identity(ctx: &mut Ctx, c: &SrvIdCase) -> Res {
    let pk = RefKey::from_seed(&c.seed.0).public();
    let mut online_keys = std::collections::HashSet::new();
    let zone = super::procs::IDENTITY_ZONES[c.tz as usize % super::procs::IDENTITY_ZONES.len()];
    if zone.is_empty() {
        std::env::remove_var("TZ");
    } else {
        std::env::set_var("TZ", zone);
        ctx.class("c10:server:under-a-far-time-zone");
    }
    for r in 0..c.restarts {
        let status_interval = if c.interval_ms == 0 { Duration::from_secs(600) } else { Duration::from_millis(c.interval_ms as u64) };
        let mut lab = match Lab::new(LabCfg { seed: c.seed.0.clone(), batch_size: c.batch_size, status_interval, ..Default::default() }, 16) {
            Ok(l) => l,
            Err(e) => return ctx.fail("server-new-failed", e),
        };
        if c.pause_ms > 0 {
            // let one or more status intervals elapse, with the server pumping its timer events
            let end = std::time::Instant::now() + Duration::from_millis(c.pause_ms as u64);
            while std::time::Instant::now() < end {
                if let Err(p) = lab.step(&[], 0) {
                    return ctx.fail("process-events-panic", format!("{:?}", p));
                }
                std::thread::sleep(Duration::from_millis(3));
            }
        }
        if lab.server.get_public_key() != hex(&pk) {
            return ctx.fail("announced-key-not-rfc8032", format!("seed {}: server announces {} but RFC 8032 gives {} (start {})", hex(&c.seed.0), lab.server.get_public_key(), hex(&pk), r));
        }
        if c.unsendable_first {
            let mut pre = vec![];
            for (j, ietf) in [false, true, false].iter().enumerate() {
                let nonce = crate::refcrypto::sha512(&[&b"c10-unsendable"[..], &[j as u8][..]])[..if *ietf { 32 } else { 64 }].to_vec();
                pre.push((PORT0, build_request(if *ietf { Proto::Ietf } else { Proto::Classic }, &nonce, 1024, &[VER_DRAFT13], None)));
            }
            if let Err(e) = lab.step(&pre, 0) {
                return ctx.fail("process-events-panic", format!("{:?}", e));
            }
            ctx.class("c10:server:after-unsendable-replies");
        }
        let step: Vec<Send> = c.reqs.iter().enumerate().map(|(i, q)| Send { sock: (i % 16) as u8, d: Dgram::Std(q.clone()) }).collect();
        let sent = materialize(&lab, &step, 16);
        let sends: Vec<(usize, Vec<u8>)> = sent.iter().map(|s| (s.sock, s.bytes.clone())).collect();
        let res = match lab.step(&sends, sends.len()) {
            Ok(r) => r,
            Err(StepErr::Panic(p)) => return ctx.fail("process-events-panic", p),
            Err(StepErr::Wedged(m)) => return ctx.fail("wedged", m),
        };
        let mut all: Vec<(Proto, &Vec<u8>, Vec<u8>)> = vec![];
        for (sock, rs) in res.replies.iter().enumerate() {
            for reply in rs {
                // find the request of this socket it answers (by strict verification)
                let m = sent.iter().filter(|s| s.sock == sock).find_map(|s| s.wellformed.as_ref().and_then(|i| verify_strict(i.proto, &s.bytes, reply, &pk).ok().map(|inf| (i.proto, inf))));
                match m {
                    Some((proto, info)) => all.push((proto, reply, info.cert.clone())),
                    None => return ctx.fail("reply-does-not-verify-under-seed-key", format!("start {}: a reply does not verify under the RFC 8032 key of the seed", r)),
                }
            }
        }
        match verify_strict(res.sentinel_proto, &res.sentinel_request, res.sentinel_replies.first().map(|v| v.as_slice()).unwrap_or(&[]), &pk) {
            Ok(info) => {
                ctx.eval();
                let k = check_cert(ctx, res.sentinel_proto, &info.cert, &pk, Some(info.midp))?;
                online_keys.insert(k);
            }
            Err(e) => return ctx.fail("reply-does-not-verify-under-seed-key", format!("sentinel: {}", e)),
        }
        for (proto, reply, cert) in all {
            ctx.eval();
            let payload = if proto == Proto::Ietf { &reply[12..] } else { &reply[..] };
            let m = Msg::decode_any(payload).unwrap();
            let srep = Msg::decode_any(m.get(rc::SREP).unwrap()).unwrap();
            let midp = u64::from_le_bytes(srep.get(rc::MIDP).unwrap().try_into().unwrap());
            let k = check_cert(ctx, proto, &cert, &pk, Some(midp))?;
            online_keys.insert(k);
        }
    }
    ctx.class(&format!("c10:server:restarts={}", c.restarts));
    if c.restarts >= 2 {
        ctx.nontrivial(&(&c.seed.0, c.restarts));
    }
    Ok(())
}

pub fn run_c10(ctx: &mut Ctx) -> Vec<Violation> {
    install_logger(log::LevelFilter::Off);
    let t = ctx.tier;
    let mut out = vec![];
    let id = (seed32(), proptest::collection::vec(proptest::collection::vec(any::<bool>(), 1..=8), 1..=6), any::<bool>()).prop_map(|(seed, restarts, same_online)| IdCase { same_online, seed, restarts });
    out.extend(run_prop(ctx, "library", t.pick(20_000, 200_000), 500, id, |ctx, c| {
        ctx.sample("library", 2, c);
        check_identity(ctx, c)
    }));
    let srv = (seed32(), 1u8..=3, prop::sample::select(vec![1u8, 2, 7, 64]), proptest::collection::vec(std_req(), 1..=12), prop_oneof![5 => Just((0u16, 0u16)), 1 => (20u16..=60, 70u16..=160)], prop::bool::weighted(0.3))
        .prop_map(|(seed, restarts, batch_size, reqs, (interval_ms, pause_ms), unsendable_first)| { let tz = if seed.0[7] % 2 == 0 { 0 } else { seed.0[8] % 6 }; SrvIdCase { interval_ms, pause_ms, seed, restarts, batch_size, reqs, unsendable_first, tz } });
    out.extend(run_prop(ctx, "server", t.pick(4_000, 40_000), 200, srv, |ctx, c| {
        ctx.sample("server", 1, &(c.seed.clone(), c.restarts, c.reqs.len()));
        check_server_identity(ctx, c)
    }));
    out.extend(super::procs::c10_process_part(ctx));
    out
}

pub fn replay_c10(ctx: &mut Ctx, sub: &str, case: &Value) -> Res {
    install_logger(log::LevelFilter::Off);
    match sub {
        "library" => replay_case::<IdCase, _>(ctx, case, |ctx, c| check_identity(ctx, c)),
        "server" => replay_case::<SrvIdCase, _>(ctx, case, |ctx, c| check_server_identity(ctx, c)),
        "real-binary" => super::procs::c10_replay(ctx, case),
        _ => Err(viol("bad-replay-file", format!("unknown sub {}", sub))),
    }
}

// ------------------------------------------------------------------------------------------- C11

#[derive(Debug, Clone, Serialize, Deserialize)]
pub struct ClockCase {
    pub secs: u64,
    pub nanos: u32,
    pub ietf: bool,
    pub root: Hex,
}

fn nanos_class(n: u32) -> &'static str {
    match n {
        0 => "x.000000000",
        1..=999 => "sub-microsecond",
        999_999_000..=999_999_999 => "x.999999xxx",
        _ => "mid",
    }
}

pub fn check_midp(proto: Proto, midp: u64, radi: u32, t_ns: u128) -> Result<(), (String, String)> {
    let (unit_ns, want_radi): (u128, u32) = match proto {
        Proto::Classic => (1_000, 5_000_000),
        Proto::Ietf => (1_000_000_000, 5),
    };
    let m_ns = midp as u128 * unit_ns;
    // "the clock reading expressed in whole units": the largest whole unit not exceeding the reading
    if m_ns > t_ns {
        return Err((format!("midpoint-later-than-clock|{}", proto.name()), format!("{}: MIDP {} (unit {} ns) lies {} ns after the clock reading {} ns it is supposed to express", proto.name(), midp, unit_ns, m_ns - t_ns, t_ns)));
    }
    let diff = t_ns - m_ns;
    if diff >= unit_ns {
        return Err((format!("midpoint-not-clock|{}", proto.name()), format!("{}: MIDP {} (unit {} ns) but the clock read {} ns: off by {} ns (>= one unit)", proto.name(), midp, unit_ns, t_ns, diff)));
    }
    if radi != want_radi {
        return Err((format!("radius-not-5s|{}", proto.name()), format!("{}: RADI {} but five seconds in this unit is {}", proto.name(), radi, want_radi)));
    }
    Ok(())
}

fn check_clock(ctx: &mut Ctx, c: &ClockCase) -> Res {
    ctx.eval();
    let proto = if c.ietf { Proto::Ietf } else { Proto::Classic };
    let now = UNIX_EPOCH + Duration::new(c.secs, c.nanos);
    let mut online = OnlineKey::new();
    let srep_msg = match no_unwind(|| online.make_srep(ver(c.ietf), now, &c.root.0)) {
        Ok(m) => m,
        Err(p) => return ctx.fail("make-srep-panic", format!("{} for clock {}.{:09}", p, c.secs, c.nanos)),
    };
    let srep_b = srep_msg.get_field(roughenough::Tag::SREP).map(|b| b.to_vec()).unwrap_or_default();
    let srep = match Msg::decode_known(&srep_b) {
        Ok(m) => m,
        Err(e) => return ctx.fail("srep-undecodable", format!("{:?}", e)),
    };
    let (midp, radi) = match (srep.get(rc::MIDP), srep.get(rc::RADI)) {
        (Some(m), Some(r)) if m.len() == 8 && r.len() == 4 => (u64::from_le_bytes(m.try_into().unwrap()), u32::from_le_bytes(r.try_into().unwrap())),
        _ => return ctx.fail("srep-lacks-midp-radi", "SREP without 8-byte MIDP / 4-byte RADI"),
    };
    let t_ns = c.secs as u128 * 1_000_000_000 + c.nanos as u128;
    if let Err((sig, what)) = check_midp(proto, midp, radi, t_ns) {
        return ctx.fail(sig, what);
    }
    if srep.get(rc::ROOT) != Some(c.root.0.as_slice()) {
        return ctx.fail("root-not-carried", "SREP.ROOT differs from the root passed in");
    }
    // signature by the online key whose PUBK make_dele announces
    let pubk = online.make_dele().get_field(roughenough::Tag::PUBK).map(|p| p.to_vec()).unwrap_or_default();
    let mut signed = SREP_CTX.to_vec();
    signed.extend_from_slice(&srep_b);
    if !verify(&pubk, &signed, srep_msg.get_field(roughenough::Tag::SIG).unwrap_or(&[])) {
        return ctx.fail("srep-signature", "SREP signature does not verify under the online key with the response context");
    }
    ctx.class(&format!("c11:pure:{}:{}", proto.name(), nanos_class(c.nanos)));
    if c.nanos != 0 {
        ctx.nontrivial(&(c.secs, c.nanos, c.ietf));
    }
    Ok(())
}

/// several clock readings signed by ONE online key, in any order (a clock may be stepped back)
#[derive(Debug, Clone, Serialize, Deserialize)]
pub struct ClockSeq {
    pub readings: Vec<(u64, u32, bool)>,
}

fn check_clock_seq(ctx: &mut Ctx, c: &ClockSeq) -> Res {
    let mut online = OnlineKey::new();
    let mut prev: Option<(u64, u32)> = None;
    let mut backwards = false;
    for (n, (secs, nanos, ietf)) in c.readings.iter().enumerate() {
        ctx.eval();
        let proto = if *ietf { Proto::Ietf } else { Proto::Classic };
        let now = UNIX_EPOCH + Duration::new(*secs, *nanos);
        let srep_msg = match no_unwind(|| online.make_srep(ver(*ietf), now, &[7u8; 32])) {
            Ok(m) => m,
            Err(p) => return ctx.fail("make-srep-panic", p),
        };
        let srep = match Msg::decode_known(srep_msg.get_field(roughenough::Tag::SREP).unwrap_or(&[])) {
            Ok(m) => m,
            Err(e) => return ctx.fail("srep-undecodable", format!("{:?}", e)),
        };
        let midp = srep.get(rc::MIDP).map(|m| u64::from_le_bytes(m.try_into().unwrap_or([0; 8]))).unwrap_or(0);
        let radi = srep.get(rc::RADI).map(|m| u32::from_le_bytes(m.try_into().unwrap_or([0; 4]))).unwrap_or(0);
        let t_ns = *secs as u128 * 1_000_000_000 + *nanos as u128;
        if let Some(p) = prev {
            if (*secs, *nanos) < p {
                backwards = true;
            }
        }
        if let Err((sig, what)) = check_midp(proto, midp, radi, t_ns) {
            return ctx.fail(format!("sequence|{}", sig), format!("reading #{} of a sequence on one online key ({}): {}", n, if backwards { "after a larger reading" } else { "ascending so far" }, what));
        }
        prev = Some((*secs, *nanos));
    }
    ctx.class(&format!("c11:sequence:{}", if backwards { "non-monotonic" } else { "ascending" }));
    if backwards {
        ctx.nontrivial(&c.readings);
    }
    Ok(())
}

#[derive(Debug, Clone, Serialize, Deserialize)]
pub struct LiveCase {
    pub seed: Hex,
    pub batch_size: u8,
    /// milliseconds to let the server age before each step
    pub waits_ms: Vec<u16>,
    pub reqs: Vec<StdReq>,
    /// Some(p): every step's sentinel uses protocol p (true = IETF), so that the responder of the other protocol sees
    /// byte-identical batches in consecutive steps (catches a signed response cached across batches)
    #[serde(default)]
    pub sentinel_ietf: Option<bool>,
    /// before each wait, feed the server this many invalid datagrams alone (no valid request in that pass)
    #[serde(default)]
    pub junk_before_wait: u8,
}

fn sys_ns(t: SystemTime) -> u128 {
    t.duration_since(UNIX_EPOCH).unwrap().as_nanos()
}

fn check_live(ctx: &mut Ctx, c: &LiveCase) -> Res {
    let mut lab = match Lab::new(LabCfg { seed: c.seed.0.clone(), batch_size: c.batch_size, ..Default::default() }, 16) {
        Ok(l) => l,
        Err(e) => return ctx.fail("server-new-failed", e),
    };
    let pk = lab.pk.clone();
    const SLACK: u128 = 250_000_000;
    for w in &c.waits_ms {
        if c.junk_before_wait > 0 {
            // a processing pass that sees only invalid datagrams, then silence, then the valid requests
            let junk: Vec<(usize, Vec<u8>)> = (0..c.junk_before_wait).map(|k| (k as usize % 16, vec![0x5au8.wrapping_add(k); 16 + 4 * k as usize])).collect();
            if let Err(p) = lab.feed(&junk, 2) {
                return ctx.fail("process-events-panic", p);
            }
        }
        std::thread::sleep(Duration::from_millis(*w as u64));
        let step: Vec<Send> = c.reqs.iter().enumerate().map(|(i, q)| Send { sock: (i % 16) as u8, d: Dgram::Std(q.clone()) }).collect();
        let sent = materialize(&lab, &step, 16);
        let sends: Vec<(usize, Vec<u8>)> = sent.iter().map(|s| (s.sock, s.bytes.clone())).collect();
        lab.force_sentinel = c.sentinel_ietf.map(|i| if i { Proto::Ietf } else { Proto::Classic });
        let res = match lab.step(&sends, sends.len()) {
            Ok(r) => r,
            Err(StepErr::Panic(p)) => return ctx.fail("process-events-panic", p),
            Err(StepErr::Wedged(m)) => return ctx.fail("wedged", m),
        };
        let age_ms = lab.born.elapsed().as_millis();
        let (t0, t1) = (sys_ns(res.t0), sys_ns(res.t1));
        let mut infos: Vec<RespInfo> = vec![];
        for (sock, rs) in res.replies.iter().enumerate() {
            for reply in rs {
                if let Some(i) = sent.iter().filter(|s| s.sock == sock).find_map(|s| s.wellformed.as_ref().and_then(|i| verify_strict(i.proto, &s.bytes, reply, &pk).ok())) {
                    infos.push(i);
                }
            }
        }
        if let Some(r) = res.sentinel_replies.first() {
            if let Ok(i) = verify_strict(res.sentinel_proto, &res.sentinel_request, r, &pk) {
                infos.push(i);
            }
        }
        if infos.is_empty() {
            return ctx.fail("no-verifiable-reply", "live check saw no verifiable reply");
        }
        for i in infos {
            ctx.eval();
            let (unit, want_radi): (u128, u32) = if i.proto == Proto::Ietf { (1_000_000_000, 5) } else { (1_000, 5_000_000) };
            let lo = (t0.saturating_sub(SLACK)) / unit; // floor
            let hi = (t1 + SLACK + unit - 1) / unit; // ceil
            if (i.midp as u128) < lo || (i.midp as u128) > hi {
                return ctx.fail(
                    format!("live-midpoint-outside-bracket|{}", i.proto.name()),
                    format!("{} reply from a server aged {} ms: MIDP {} not within harness clock bracket [{}, {}] (unit {} ns, 250 ms slack)", i.proto.name(), age_ms, i.midp, lo, hi, unit),
                );
            }
            if i.radi != want_radi {
                return ctx.fail(format!("radius-not-5s|{}", i.proto.name()), format!("RADI {} expected {}", i.radi, want_radi));
            }
            ctx.class(&format!("c11:live:{}:{}", i.proto.name(), if age_ms >= 1000 { "aged>=1s" } else { "young" }));
            if age_ms >= 1000 {
                ctx.nontrivial(&("live", i.midp, i.proto, &i.srep));
            }
        }
    }
    Ok(())
}

/// the real server under an LD_PRELOAD shim that shifts ITS CLOCK_REALTIME by an offset the harness changes while
/// the server runs: the signed midpoint follows the server's clock at once, in both protocols, on every worker
#[derive(Debug, Clone, Serialize, Deserialize)]
pub struct ClockStep {
    pub workers: u8,
    /// offsets in seconds, applied one after the other
    pub offsets: Vec<i64>,
}

const CLOCKSHIM: &str = "/verif/target/clockshim.so";

fn check_clock_step(ctx: &mut Ctx, c: &ClockStep) -> Res {
    use crate::proclab::{scratch_dir, ServerProc, SrvCfg};
    ctx.eval();
    if !std::path::Path::new(CLOCKSHIM).exists() {
        ctx.class("c11:clock-step:skipped-no-shim");
        return Ok(());
    }
    let dir = scratch_dir("clk");
    let file = dir.join("offset");
    std::fs::write(&file, "0").unwrap();
    let cfg = SrvCfg {
        seed_hex: hex(&[0x44u8; 32]),
        workers: Some(c.workers.max(1) as u64),
        env_extra: vec![("LD_PRELOAD".into(), CLOCKSHIM.into()), ("CLOCKSHIM_FILE".into(), file.display().to_string())],
        ..Default::default()
    };
    let mut s = match ServerProc::start(&cfg) {
        Ok(s) => s,
        Err(e) => {
            ctx.inconclusive(format!("proclab: {}", e));
            return Ok(());
        }
    };
    if let Err(e) = s.wait_ready(Duration::from_secs(10)) {
        ctx.inconclusive(format!("C11 clock-step: server never served: {}", e.chars().take(200).collect::<String>()));
        return Ok(());
    }
    let pk = s.pk.clone();
    let mut k = 0u64;
    for (step, off) in std::iter::once(&0i64).chain(c.offsets.iter()).enumerate() {
        std::fs::write(&file, off.to_string()).unwrap();
        std::thread::sleep(Duration::from_millis(5));
        // fresh sockets: the requests spread over the workers
        for j in 0..(4 * c.workers.max(1) as usize) {
            let proto = if j % 2 == 0 { Proto::Classic } else { Proto::Ietf };
            k += 1;
            let req = crate::proclab::fresh_request(proto, b"c11-step", k);
            let sock = std::net::UdpSocket::bind("127.0.0.1:0").unwrap();
            sock.set_read_timeout(Some(Duration::from_secs(3))).unwrap();
            let t_send = std::time::SystemTime::now().duration_since(std::time::UNIX_EPOCH).unwrap().as_nanos() as i128;
            let _ = sock.send_to(&req, s.addr());
            let mut buf = [0u8; 4096];
            let len = match sock.recv_from(&mut buf) {
                Ok((l, _)) => l,
                Err(_) => {
                    ctx.inconclusive("C11 clock-step: a request went unanswered".to_string());
                    return Ok(());
                }
            };
            let t_recv = std::time::SystemTime::now().duration_since(std::time::UNIX_EPOCH).unwrap().as_nanos() as i128;
            let info = match verify_strict(proto, &req, &buf[..len], &pk) {
                Ok(i) => i,
                Err(e) => return ctx.fail(format!("clock-step|reply-invalid|{}", e), format!("offset {} s: {}", off, e)),
            };
            let unit: i128 = if proto == Proto::Classic { 1_000 } else { 1_000_000_000 };
            let lo = info.midp as i128 * unit;
            let shift = *off as i128 * 1_000_000_000;
            const SLACK: i128 = 1_500_000_000;
            if lo + unit + SLACK < t_send + shift || lo > t_recv + shift + SLACK {
                return ctx.fail(
                    format!("clock-step|midpoint-does-not-follow-the-server-clock|{}", proto.name()),
                    format!("step {}: the server's clock was set {} s away from the host clock; a {} request sent at host time {} ns got MIDP {} (= {} ns), i.e. {} s away from the server's clock", step, off, proto.name(), t_send, info.midp, lo, (lo - t_send - shift) / 1_000_000_000),
                );
            }
        }
    }
    s.signal(libc::SIGTERM);
    s.wait_exit(Duration::from_secs(5));
    let _ = std::fs::remove_dir_all(&dir);
    ctx.class(&format!("c11:clock-step:workers={}:steps={}", c.workers, c.offsets.len()));
    ctx.nontrivial(&(c.workers, &c.offsets));
    Ok(())
}

/// with deliberate faults on, whatever reply still verifies in full states the server clock like any other reply
#[derive(Debug, Clone, Serialize, Deserialize)]
pub struct FaultTime {
    pub p: u8,
    pub batch_size: u8,
    pub replies: u32,
}

fn check_fault_time(ctx: &mut Ctx, c: &FaultTime) -> Res {
    let mut lab = match Lab::new(LabCfg { seed: vec![0x21; 32], batch_size: c.batch_size, fault: c.p, ..Default::default() }, 48) {
        Ok(l) => l,
        Err(e) => return ctx.fail("server-new-failed", e),
    };
    let pk = lab.pk.clone();
    let (mut seen, mut valid) = (0u32, 0u32);
    let mut k = 0u32;
    while seen < c.replies {
        let mut sends = vec![];
        for j in 0..96usize {
            k += 1;
            let proto = if k % 2 == 0 { Proto::Ietf } else { Proto::Classic };
            let nonce = crate::refcrypto::sha512(&[&b"c11-fault"[..], &k.to_le_bytes()[..]])[..proto.nonce_len()].to_vec();
            sends.push((j % 48, build_request(proto, &nonce, 1024, &[VER_DRAFT13], None), proto));
        }
        let plain: Vec<(usize, Vec<u8>)> = sends.iter().map(|s| (s.0, s.1.clone())).collect();
        let res = match lab.step(&plain, plain.len()) {
            Ok(r) => r,
            Err(StepErr::Panic(p)) => return ctx.fail("process-events-panic", p),
            Err(StepErr::Wedged(m)) => return ctx.fail("wedged", m),
        };
        let t0 = res.t0.duration_since(std::time::UNIX_EPOCH).unwrap().as_nanos();
        let t1 = res.t1.duration_since(std::time::UNIX_EPOCH).unwrap().as_nanos();
        for (sock, rs) in res.replies.iter().enumerate() {
            for r in rs {
                ctx.eval();
                seen += 1;
                if let Some((proto, info)) = sends.iter().filter(|s| s.0 == sock).find_map(|s| verify_strict(s.2, &s.1, r, &pk).ok().map(|i| (s.2, i))) {
                    valid += 1;
                    let unit: u128 = if proto == Proto::Classic { 1_000 } else { 1_000_000_000 };
                    let lo = info.midp as u128 * unit;
                    const SLACK: u128 = 2_000_000_000;
                    if lo + unit + SLACK < t0 || lo > t1 + SLACK {
                        return ctx.fail(
                            format!("fault-injection|valid-reply-with-wrong-time|{}", proto.name()),
                            format!("fault_percentage {}: a reply that verifies in full states MIDP {} ({}), but the step ran between {} ns and {} ns since the epoch", c.p, info.midp, proto.name(), t0, t1),
                        );
                    }
                }
            }
        }
    }
    ctx.class(&format!("c11:fault-time:p={}", c.p));
    ctx.nontrivial(&("fault-time", c.p, c.batch_size, valid));
    Ok(())
}

pub fn run_c11(ctx: &mut Ctx) -> Vec<Violation> {
    install_logger(log::LevelFilter::Off);
    let t = ctx.tier;
    let mut out = vec![];
    let nanos = prop_oneof![
        3 => prop::sample::select(vec![0u32, 1, 999, 1_000, 1_001, 499_999, 500_000, 999_999, 1_000_000, 999_999_000, 999_999_499, 999_999_500, 999_999_999]),
        3 => 0u32..1_000_000_000,
    ];
    let secs = prop_oneof![
        2 => 0u64..=(1u64 << 34),
        2 => 1_600_000_000u64..=2_000_000_000,
        1 => prop::sample::select(vec![0u64, 1, 59, 951_782_400 /* 2000-02-29 */, 1_709_251_199, 4_102_444_799, 7_258_118_400 /* 2200 */, 253_402_300_799 /* 9999-12-31T23:59:59 */, (1u64 << 34)]),
    ];
    let case = (secs, nanos, any::<bool>(), prop_oneof![bytes_exact(32), bytes_exact(64)]).prop_map(|(secs, nanos, ietf, root)| ClockCase { secs, nanos, ietf, root });
    out.extend(run_prop(ctx, "pure", t.pick(400_000, 6_000_000), 2000, case, |ctx, c| {
        ctx.sample("pure", 3, c);
        check_clock(ctx, c)
    }));
    let seq = proptest::collection::vec((prop_oneof![0u64..=(1u64 << 33), 1_700_000_000u64..=1_700_000_100], prop_oneof![Just(0u32), Just(999_999_999u32), 0u32..1_000_000_000], any::<bool>()), 2..=12).prop_map(|readings| ClockSeq { readings });
    out.extend(run_prop(ctx, "clock-sequences", t.pick(40_000, 400_000), 500, seq, |ctx, c| {
        ctx.sample("clock-sequences", 1, c);
        check_clock_seq(ctx, c)
    }));
    // the server's clock is stepped while it runs
    {
        let cases = vec![
            ClockStep { workers: 1, offsets: vec![3_600, -7_200, 0] },
            ClockStep { workers: 4, offsets: vec![86_400 * 400, 1] },
            ClockStep { workers: 2, offsets: vec![-1, 5, -86_400 * 3_000] },
            ClockStep { workers: 1, offsets: vec![4_102_444_800 - 1_790_000_000] },
        ];
        out.extend(run_enum(ctx, "clock-step-real-binary", cases.len() as u64, |i| cases[i as usize].clone(), |ctx, c| check_clock_step(ctx, c)));
    }
    // fault injection on: replies that still verify must still tell the time
    {
        let n = t.pick(4_000, 40_000);
        let cases: Vec<FaultTime> = [(50u8, 64u8), (50, 1), (50, 7), (40, 64), (50, 16), (30, 3), (50, 2), (50, 33), (45, 64), (50, 4), (50, 64), (50, 8), (50, 1), (50, 32), (25, 64), (50, 5)].iter().map(|(p, b)| FaultTime { p: *p, batch_size: *b, replies: n }).collect();
        out.extend(run_enum(ctx, "fault-valid-time", cases.len() as u64, |i| cases[i as usize].clone(), |ctx, c| check_fault_time(ctx, c)));
    }
    // live: young servers (many) and aged servers (few; each costs > 1 s of sleeping)
    let young = (seed32(), prop::sample::select(vec![1u8, 3, 64]), proptest::collection::vec(0u16..3, 1..=3), proptest::collection::vec(std_req(), 1..=10)).prop_map(|(seed, batch_size, waits_ms, reqs)| LiveCase { seed, batch_size, waits_ms, reqs, sentinel_ietf: None, junk_before_wait: 0 });
    out.extend(run_prop(ctx, "live-young", t.pick(6_000, 60_000), 50, young, |ctx, c| check_live(ctx, c)));
    let aged = (seed32(), prop::sample::select(vec![1u8, 64]), any::<bool>(), 0u8..3, prop_oneof![Just(0u8), 1u8..=3]).prop_flat_map(|(seed, batch_size, ietf, mode, junk)| {
        // mode 0: mixed requests, alternating sentinel; mode 1/2: requests of one protocol only and the sentinel pinned to the
        // other protocol, so consecutive steps present byte-identical batches to one responder
        let reqs = if mode == 0 { proptest::collection::vec(std_req(), 4..=24).boxed() } else { proptest::collection::vec(std_req_of(ietf), 1..=8).boxed() };
        reqs.prop_map(move |reqs| LiveCase { seed: seed.clone(), batch_size, waits_ms: vec![1_050, 5, 400], reqs, sentinel_ietf: if mode == 0 { None } else { Some(!ietf) }, junk_before_wait: junk })
    });
    out.extend(run_prop(ctx, "live-aged", t.pick(32, 480), 0, aged, |ctx, c| {
        ctx.sample("live-aged", 1, &(c.batch_size, c.waits_ms.clone(), c.reqs.len()));
        check_live(ctx, c)
    }));
    // the real binary under non-UTC time zones (POSIX TZ strings need no tzdata; named zones if installed)
    let zones = ["XXX3", "YYY-5:30", "UTC", "Asia/Kolkata", "America/St_Johns", "ZZZ-13", "AAA11:45"];
    let n = t.pick(4u64, 7u64);
    out.extend(run_enum(ctx, "tz-real-binary", n, |i| TzCase { tz: zones[i as usize].to_string(), workers: 1 + (i % 2) as u8 }, |ctx, c| check_tz(ctx, c)));
    out.extend(super::procs::c11_burst_part(ctx));
    out
}

/// real server process under a non-UTC time zone: the midpoint must still be the (UTC) clock
#[derive(Debug, Clone, Serialize, Deserialize)]
pub struct TzCase {
    pub tz: String,
    pub workers: u8,
}

fn check_tz(ctx: &mut Ctx, c: &TzCase) -> Res {
    use crate::proclab::*;
    let cfg = SrvCfg { seed_hex: super::procs::GOOD_SEED.into(), workers: Some(c.workers.max(1) as u64), env_extra: vec![("TZ".into(), c.tz.clone())], ..Default::default() };
    let mut s = match ServerProc::start(&cfg) {
        Ok(s) => s,
        Err(e) => {
            ctx.inconclusive(format!("proclab: {}", e));
            return Ok(());
        }
    };
    if let Err(e) = s.wait_ready(Duration::from_secs(10)) {
        ctx.inconclusive(format!("C11 tz: server not ready: {}", e.chars().take(200).collect::<String>()));
        return Ok(());
    }
    let sock = std::net::UdpSocket::bind("127.0.0.1:0").unwrap();
    sock.set_read_timeout(Some(Duration::from_secs(3))).unwrap();
    const SLACK: u128 = 250_000_000;
    for k in 0..12u64 {
        ctx.eval();
        let proto = if k % 2 == 0 { Proto::Classic } else { Proto::Ietf };
        let req = fresh_request(proto, b"c11tz", k);
        let t0 = sys_ns(SystemTime::now());
        let _ = sock.send_to(&req, s.addr());
        let mut buf = [0u8; 4096];
        let n = match sock.recv_from(&mut buf) {
            Ok((n, _)) => n,
            Err(_) => return ctx.fail("request-unanswered", format!("TZ={}: request unanswered", c.tz)),
        };
        let t1 = sys_ns(SystemTime::now());
        match verify_strict(proto, &req, &buf[..n], &s.pk) {
            Ok(i) => {
                let unit: u128 = if proto == Proto::Ietf { 1_000_000_000 } else { 1_000 };
                let lo = t0.saturating_sub(SLACK) / unit;
                let hi = (t1 + SLACK + unit - 1) / unit;
                if (i.midp as u128) < lo || (i.midp as u128) > hi {
                    return ctx.fail(
                        format!("live-midpoint-outside-bracket|{}|tz", proto.name()),
                        format!("server running with TZ={}: {} MIDP {} not within the harness's UTC clock bracket [{}, {}] (unit {} ns)", c.tz, proto.name(), i.midp, lo, hi, unit),
                    );
                }
            }
            Err(e) => return ctx.fail(format!("reply-invalid|{}", e), format!("TZ={}: {}", c.tz, e)),
        }
    }
    s.signal(libc::SIGTERM);
    s.wait_exit(Duration::from_secs(5));
    ctx.class(&format!("c11:real-binary:TZ={}", c.tz));
    ctx.nontrivial(&("tz", &c.tz, c.workers));
    Ok(())
}

pub fn replay_c11(ctx: &mut Ctx, sub: &str, case: &Value) -> Res {
    if sub == "tz-real-binary" {
        return replay_case::<TzCase, _>(ctx, case, |ctx, c| check_tz(ctx, c));
    }
    if sub == "clock-step-real-binary" {
        return replay_case::<ClockStep, _>(ctx, case, |ctx, c| check_clock_step(ctx, c));
    }
    if sub == "fault-valid-time" {
        install_logger(log::LevelFilter::Off);
        return replay_case::<FaultTime, _>(ctx, case, |ctx, c| check_fault_time(ctx, c));
    }
    if sub == "burst-real-binary" {
        return super::procs::replay_c18(ctx, sub, case);
    }
    install_logger(log::LevelFilter::Off);
    match sub {
        "pure" => replay_case::<ClockCase, _>(ctx, case, |ctx, c| check_clock(ctx, c)),
        "clock-sequences" => replay_case::<ClockSeq, _>(ctx, case, |ctx, c| check_clock_seq(ctx, c)),
        "live-young" | "live-aged" => replay_case::<LiveCase, _>(ctx, case, |ctx, c| check_live(ctx, c)),
        _ => Err(viol("bad-replay-file", format!("unknown sub {}", sub))),
    }
}
