//! Checks that drive the real `Server` in-process through srvlab: C02, C07, C08, C09.

use crate::engine::*;
use crate::gen::*;
use crate::refcodec::{self as rc, hex, Msg};
use crate::refcrypto::ceil_log2;
use crate::refproto::*;
use crate::reqgen::*;
use crate::srvlab::*;
use proptest::prelude::*;
use serde::{Deserialize, Serialize};
use serde_json::Value;
use std::collections::HashMap;

#[derive(Debug, Clone, Serialize, Deserialize)]
pub struct Send {
    pub sock: u8,
    pub d: Dgram,
}

#[derive(Debug, Clone, Serialize, Deserialize)]
pub struct Scenario {
    /// > 0: the server also has a TCP health-check port, and before every step this many TCP connections are made to
    /// it and left pending while the datagrams of the step arrive
    #[serde(default)]
    pub health_burst: u8,
    /// > 0: the server's status_interval in milliseconds; before every step the server idles for three such intervals
    /// (statistics timer, and whatever else an implementation hangs on that interval, gets to fire)
    #[serde(default)]
    pub interval_ms: u16,
    /// serve on the IPv6 loopback
    #[serde(default)]
    pub ipv6: bool,
    pub seed: Hex,
    pub batch_size: u8,
    pub fault: u8,
    pub stats: bool,
    pub steps: Vec<Vec<Send>>,
}

#[derive(Clone, Copy, PartialEq, Eq, Debug)]
pub enum Which {
    C02,
    C07,
    C08,
    C09,
}

pub struct Sent {
    pub sock: usize,
    pub bytes: Vec<u8>,
    pub family: &'static str,
    /// a request every reading of the protocol says must be answered
    pub standard: Option<ReqInfo>,
    /// generous classification: may be answered at all
    pub wellformed: Option<ReqInfo>,
}

/// source ports some servers treat specially (amplification reflectors, privileged, extremes)
pub const SPECIAL_PORTS: [u16; 12] = [53, 123, 1900, 5353, 11211, 1, 7, 19, 161, 1023, 1024, 65_535];

pub fn materialize(lab: &Lab, step: &[Send], nsocks: usize) -> Vec<Sent> {
    materialize_special(lab, step, nsocks, 0)
}

/// sock 200 + k addresses the client socket bound to SPECIAL_PORTS[k] (appended to the lab's sockets after the first
/// `nsocks`), when `special` such sockets exist
pub fn materialize_special(lab: &Lab, step: &[Send], nsocks: usize, special: usize) -> Vec<Sent> {
    let _ = lab;
    step.iter()
        .map(|s| {
            let bytes = s.d.bytes(&lab.srv);
            let standard = is_standard(&bytes, &lab.srv);
            let wellformed = match classify_request(&bytes) {
                ReqClass::WellFormed(i) if in_size_range(bytes.len()) => Some(i),
                _ => None,
            };
            let sock = if s.sock == 255 {
                PORT0
            } else if special > 0 && (200..255).contains(&s.sock) {
                nsocks + (s.sock as usize - 200) % special
            } else {
                s.sock as usize % nsocks
            };
            Sent { sock, bytes, family: s.d.family(), standard, wellformed }
        })
        .collect()
}

/// a client socket index, now and then 255 = "the datagram arrives with source port 0" (its reply cannot be sent)
pub fn sock_strategy(n: u8) -> impl Strategy<Value = u8> {
    sock_strategy_w(n, 40)
}

/// one in `w + 1` datagrams comes from source port 0
pub fn sock_strategy_w(n: u8, w: u32) -> impl Strategy<Value = u8> {
    prop_oneof![w => 0u8..n, 1 => Just(255u8), w / 10 + 1 => 200u8..212]
}

fn batch_size_strategy() -> impl Strategy<Value = u8> {
    prop_oneof![3 => prop::sample::select(vec![1u8, 2, 3, 4, 7, 8, 16, 32, 63, 64]), 2 => 1u8..=64]
}

// ------------------------------------------------------------------------------------------------
// C02: every reply verifies under the strict verifier; batch consistency; fault share
// ------------------------------------------------------------------------------------------------

fn c02_scenario(fault: bool) -> impl Strategy<Value = Scenario> {
    // a few nonces recur (in packets of different sizes / with and without SRV): same nonce, different request
    let recurring = (0u8..4, any::<bool>(), prop_oneof![Just(256u16), 256u16..=375], any::<bool>()).prop_map(|(k, ietf, words, srv)| {
        let n = if ietf { 32 } else { 64 };
        Dgram::Std(StdReq { ietf, words, nonce: Hex(crate::refcrypto::sha512(&[b"recur", &[k]])[..n].to_vec()), srv: if ietf && srv { SrvOpt::Correct } else { SrvOpt::Absent }, vers: if ietf { vec![VER_DRAFT13] } else { vec![] } })
    });
    let step = vec_of(
        (sock_strategy_w(48, 500), prop_oneof![12 => std_req().prop_map(Dgram::Std), 2 => recurring, 1 => invalid_dgram(), 2 => any_dgram()]).prop_map(|(sock, d)| Send { sock, d }).boxed(),
        prop_oneof![2 => 1usize..=8, 3 => 1usize..=70, 1 => 64usize..=130],
    );
    (seed32(), batch_size_strategy(), if fault { (1u8..=50).boxed() } else { Just(0u8).boxed() }, proptest::collection::vec(step, 1..=6))
        .prop_map(|(seed, batch_size, fault, steps)| Scenario { health_burst: 0, interval_ms: if seed.0[31] % 25 == 0 { 20 + (seed.0[30] % 3) as u16 * 10 } else { 0 }, ipv6: false, seed, batch_size, fault, stats: false, steps })
}

/// one-to-one matching of the replies on one socket to that socket's own requests under verify_strict
fn match_strict<'a>(replies: &'a [Vec<u8>], sent: &[&'a Sent], pk: &[u8]) -> Result<Vec<(usize, RespInfo)>, (usize, String)> {
    let mut used = vec![false; sent.len()];
    let mut out = vec![];
    for (ri, r) in replies.iter().enumerate() {
        let mut found = None;
        let mut last_err = String::from("no request of this socket matches");
        for (si, s) in sent.iter().enumerate() {
            if used[si] {
                continue;
            }
            let info = match &s.wellformed {
                Some(i) => i,
                None => continue,
            };
            match verify_strict(info.proto, &s.bytes, r, pk) {
                Ok(i) => {
                    found = Some((si, i));
                    break;
                }
                Err(e) => {
                    // keep the most informative error: prefer errors from requests whose nonce is echoed
                    let echoed = parse_nonc(r).map(|n| n == info.nonce).unwrap_or(false);
                    if echoed || last_err.starts_with("no request") {
                        last_err = e;
                    }
                }
            }
        }
        match found {
            Some((si, i)) => {
                used[si] = true;
                out.push((si, i));
            }
            None => return Err((ri, last_err)),
        }
    }
    Ok(out)
}

pub fn parse_nonc(resp: &[u8]) -> Option<Vec<u8>> {
    let payload = if resp.len() >= 12 && &resp[0..8] == rc::MAGIC { &resp[12..] } else { resp };
    Msg::decode_any(payload).ok().and_then(|m| m.get(rc::NONC).map(|n| n.to_vec()))
}

struct StepObs<'a> {
    sent: &'a [Sent],
    res: &'a StepResult,
}

fn c02_step(ctx: &mut Ctx, lab: &Lab, o: &StepObs, step_no: usize) -> Res {
    let nsocks = o.res.replies.len();
    // all replies incl. the sentinel's, for batch reconstruction
    let mut all: Vec<(Proto, RespInfo)> = vec![];
    for sock in 0..nsocks {
        let mine: Vec<&Sent> = o.sent.iter().filter(|s| s.sock == sock).collect();
        match match_strict(&o.res.replies[sock], &mine, &lab.pk) {
            Ok(m) => {
                for (si, info) in m {
                    ctx.eval();
                    all.push((mine[si].wellformed.as_ref().unwrap().proto, info));
                }
            }
            Err((ri, e)) => {
                let r = &o.res.replies[sock][ri];
                return ctx.fail(
                    format!("reply-fails-strict-verification|{}", e),
                    format!("batch_size={} step={} socket={}: reply {} ({} bytes) verifies for none of the socket's requests: {}", lab.cfg.batch_size, step_no, sock, hex(&r[..r.len().min(48)]), r.len(), e),
                );
            }
        }
    }
    if o.res.sentinel_replies.len() != 1 {
        return ctx.fail("sentinel-reply-count", format!("{} datagrams for the sentinel request", o.res.sentinel_replies.len()));
    }
    match verify_strict(o.res.sentinel_proto, &o.res.sentinel_request, &o.res.sentinel_replies[0], &lab.pk) {
        Ok(i) => all.push((o.res.sentinel_proto, i)),
        Err(e) => return ctx.fail(format!("reply-fails-strict-verification|{}", e), format!("sentinel ({:?}) reply fails: {}", o.res.sentinel_proto, e)),
    }
    // batch consistency from what was observed on the wire (skipped when identical datagrams were sent,
    // because identical IETF batches within one second legitimately share an SREP)
    let mut seen = std::collections::HashSet::new();
    let dups = !o.sent.iter().all(|s| seen.insert(&s.bytes));
    // (also skipped when a request came from source port 0: its reply cannot be sent, so its batch is seen incompletely)
    let unsendable = o.sent.iter().any(|s| s.sock == PORT0);
    if unsendable {
        ctx.class("c02:step-with-unsendable-reply");
    }
    if !dups && !unsendable {
        let mut groups: HashMap<&[u8], Vec<&(Proto, RespInfo)>> = HashMap::new();
        for x in &all {
            groups.entry(&x.1.srep).or_default().push(x);
        }
        for (_, g) in groups {
            let m = g.len();
            let proto = g[0].0;
            if g.iter().any(|x| x.0 != proto) {
                return ctx.fail("batch-mixes-protocols", "replies sharing one SREP belong to different protocols");
            }
            let w = proto.tree().width;
            let want = ceil_log2(m) * w;
            let mut idxs = std::collections::HashSet::new();
            for x in &g {
                if x.1.index as usize >= m || !idxs.insert(x.1.index) {
                    return ctx.fail("batch-index-inconsistent", format!("batch of {} replies: INDX {} out of range or repeated", m, x.1.index));
                }
                if x.1.path_len != want {
                    return ctx.fail("batch-path-length", format!("batch of {} {:?} replies: PATH is {} bytes, expected {}", m, proto, x.1.path_len, want));
                }
            }
            ctx.class(&format!("c02:batch:{}:m={}", proto.name(), if m == 1 { "1".to_string() } else if m <= 4 { "2-4".into() } else if m <= 16 { "5-16".into() } else { "17-64".into() }));
            if m >= 2 {
                for x in &g {
                    ctx.nontrivial(&(proto, m, x.1.index, step_no.min(2), &x.1.srep));
                }
            }
        }
    }
    Ok(())
}

/// fault injection on: every reply gets a verdict; both signatures valid => verifies in full; share of failures
fn c02_fault_step(ctx: &mut Ctx, lab: &Lab, o: &StepObs, tally: &mut (u64, u64)) -> Res {
    let nsocks = o.res.replies.len();
    for sock in 0..nsocks {
        let mine: Vec<&Sent> = o.sent.iter().filter(|s| s.sock == sock && s.wellformed.is_some()).collect();
        // a deliberately invalid response takes the place of the valid one: never more datagrams than requests
        if o.res.replies[sock].len() > mine.len() {
            return ctx.fail(
                "fault-more-replies-than-requests",
                format!("fault_percentage {}: socket {} sent {} answerable requests and received {} datagrams (batch_size {})", lab.cfg.fault, sock, mine.len(), o.res.replies[sock].len(), lab.cfg.batch_size),
            );
        }
        for r in &o.res.replies[sock] {
            ctx.eval();
            tally.0 += 1;
            // full verification for some own request?
            let full = mine.iter().any(|s| verify_strict(s.wellformed.as_ref().unwrap().proto, &s.bytes, r, &lab.pk).is_ok());
            if full {
                continue;
            }
            tally.1 += 1;
            // it failed: it must fail *outright*, i.e. not carry two valid signatures
            let half = no_unwind(|| mine.iter().any(|s| matches!(verify_lenient(s.wellformed.as_ref().unwrap().proto, &s.bytes, r, &lab.pk), Lenient::Authentic(_))));
            match half {
                Ok(false) => {}
                Ok(true) => return ctx.fail("fault-reply-half-valid", format!("a fault-injected reply is accepted by the lenient verifier but not the strict one: {}", hex(&r[..r.len().min(64)]))),
                Err(p) => return Err(viol("harness-panic", p)),
            }
        }
    }
    Ok(())
}

// ------------------------------------------------------------------------------------------------
// C07: replies only to well-formed in-range requests; never longer than the request
// ------------------------------------------------------------------------------------------------

fn c07_scenario() -> impl Strategy<Value = Scenario> {
    let step = vec_of((sock_strategy(32), any_dgram()).prop_map(|(sock, d)| Send { sock, d }).boxed(), prop_oneof![3 => 1usize..=12, 2 => 1usize..=70]);
    (seed32(), batch_size_strategy(), proptest::collection::vec(step, 1..=3), prop_oneof![3 => Just(0u8), 1 => 1u8..=50]).prop_map(|(seed, batch_size, steps, fault)| Scenario { health_burst: 0, interval_ms: 0, ipv6: false, seed, batch_size, fault, stats: false, steps })
}

fn len_class(l: usize) -> &'static str {
    match l {
        0 => "0",
        1..=1015 => "short",
        1016..=1023 => "just-below-1024",
        1024 => "1024",
        1025..=1032 => "just-above-1024",
        1033..=1491 => "mid",
        1492..=1499 => "just-below-1500",
        1500 => "1500",
        1501..=1508 => "just-above-1500",
        _ => "long",
    }
}

fn c07_step(ctx: &mut Ctx, lab: &Lab, o: &StepObs) -> Res {
    let nsocks = o.res.replies.len();
    for sock in 0..nsocks {
        let mine: Vec<&Sent> = o.sent.iter().filter(|s| s.sock == sock).collect();
        let replies = &o.res.replies[sock];
        for s in &mine {
            ctx.eval();
            ctx.class(&format!("c07:{}:{}:{}", s.family, len_class(s.bytes.len()), if s.wellformed.is_some() { "wellformed" } else { "not-a-request" }));
            let l = s.bytes.len();
            if s.wellformed.is_some() && ((1016..=1032).contains(&l) || (1492..=1508).contains(&l)) || (s.wellformed.is_none() && (1024..=1500).contains(&l) && s.family != "junk") {
                ctx.nontrivial(&("near", &s.bytes));
            }
        }
        if replies.is_empty() {
            continue;
        }
        if lab.cfg.fault > 0 {
            // deliberately invalid replies may lack the nonce echo or be unparseable: account by count and size only.
            // A deliberately invalid reply REPLACES the valid one.
            let mut cl: Vec<usize> = mine.iter().filter(|s| s.wellformed.is_some()).map(|s| s.bytes.len()).collect();
            let mut rl: Vec<usize> = replies.iter().map(|r| r.len()).collect();
            if rl.len() > cl.len() {
                return ctx.fail("reply-to-non-request|fault-injection-on", format!("fault_percentage {}: socket {} sent {} well-formed 1024..=1500-byte requests and received {} datagrams", lab.cfg.fault, sock, cl.len(), rl.len()));
            }
            rl.sort_unstable_by(|a, b| b.cmp(a));
            cl.sort_unstable_by(|a, b| b.cmp(a));
            for (r, c) in rl.iter().zip(cl.iter()) {
                if r > c {
                    return ctx.fail("amplification|fault-injection-on", format!("fault_percentage {}: a reply of {} bytes, largest unmatched request {} bytes", lab.cfg.fault, r, c));
                }
            }
            ctx.class("c07:fault-injection-on");
            continue;
        }
        // candidates: well-formed, in-range requests of this socket, grouped by (protocol, nonce)
        let mut cands: HashMap<(Proto, Vec<u8>), Vec<usize>> = HashMap::new();
        for s in &mine {
            if let Some(i) = &s.wellformed {
                cands.entry((i.proto, i.nonce.clone())).or_default().push(s.bytes.len());
            }
        }
        let mut by_key: HashMap<(Proto, Vec<u8>), Vec<usize>> = HashMap::new();
        for r in replies {
            let proto = if r.len() >= 8 && &r[0..8] == rc::MAGIC { Proto::Ietf } else { Proto::Classic };
            let nonce = match parse_nonc(r) {
                Some(n) => n,
                None => {
                    return ctx.fail("reply-unattributable", format!("socket {} received a datagram without a nonce echo: {}", sock, hex(&r[..r.len().min(48)])));
                }
            };
            by_key.entry((proto, nonce)).or_default().push(r.len());
        }
        for (key, mut rl) in by_key {
            let mut cl = cands.get(&key).cloned().unwrap_or_default();
            if rl.len() > cl.len() {
                // a reply that no well-formed in-range request of this socket accounts for
                let fams: Vec<String> = mine.iter().map(|s| format!("{}({} bytes)", s.family, s.bytes.len())).collect();
                return ctx.fail(
                    "reply-to-non-request",
                    format!("socket {} got {} reply(ies) with nonce {}.. but only {} well-formed 1024..=1500-byte request(s) with that nonce; datagrams sent from it: {:?}", sock, rl.len(), hex(&key.1[..key.1.len().min(8)]), cl.len(), fams),
                );
            }
            rl.sort_unstable_by(|a, b| b.cmp(a));
            cl.sort_unstable_by(|a, b| b.cmp(a));
            for (r, c) in rl.iter().zip(cl.iter()) {
                if r > c {
                    let ncls = if key.1.len() == key.0.nonce_len() { "standard-nonce" } else if key.1.len() > key.0.nonce_len() { "long-nonce" } else { "short-nonce" };
                    return ctx.fail(
                        format!("amplification|{}|{}", key.0.name(), ncls),
                        format!("{} request of {} bytes (nonce {} bytes) elicited a reply of {} bytes (batch_size {})", key.0.name(), c, key.1.len(), r, lab.cfg.batch_size),
                    );
                }
                if key.1.len() != key.0.nonce_len() {
                    ctx.nontrivial(&("odd-nonce-answered", key.0, key.1.len(), c));
                    ctx.class("c07:answered-nonstandard-nonce");
                }
            }
        }
    }
    Ok(())
}

// ------------------------------------------------------------------------------------------------
// C08: no unwind, never wedged, sentinel answered correctly
// ------------------------------------------------------------------------------------------------

fn c08_scenario() -> impl Strategy<Value = Scenario> {
    let dg = prop_oneof![
        8 => any_dgram(),
        1 => Just(Dgram::Empty),
        1 => (any::<bool>(), Just(0u16), Just(256u16), any::<u8>()).prop_map(|(ietf, nonce_words, words, fill)| Dgram::NonceLen { ietf, nonce_words, words, fill }),
        1 => (bytes(0usize..=16), Just(65_507u32), any::<u8>()).prop_map(|(prefix, len, fill)| Dgram::Junk { prefix, len, fill }),
    ];
    let step = proptest::collection::vec((sock_strategy(16), dg).prop_map(|(sock, d)| Send { sock, d }), 0usize..=24).prop_flat_map(|v| {
        // sometimes repeat one datagram several times
        (Just(v), 0usize..4).prop_map(|(mut v, rep)| {
            if rep > 0 && !v.is_empty() {
                let x = v[0].clone();
                for _ in 0..rep {
                    v.push(x.clone());
                }
            }
            v
        })
    });
    (seed32(), batch_size_strategy(), prop_oneof![2 => Just(0u8), 1 => 1u8..=50], prop::bool::weighted(0.06), proptest::collection::vec(step, 1..=4))
        .prop_map(|(seed, batch_size, fault, stats, steps)| Scenario { health_burst: 0, interval_ms: 0, ipv6: false, seed, batch_size, fault, stats, steps })
}

// ------------------------------------------------------------------------------------------------
// C09: exactly one response per accepted request, to its sender, for its own nonce
// ------------------------------------------------------------------------------------------------

fn c09_scenario() -> impl Strategy<Value = Scenario> {
    // a small pool of nonces so that identical nonces occur on different sockets
    let pool_nonce = (0u8..6, any::<bool>()).prop_map(|(k, ietf)| {
        let n = if ietf { 32 } else { 64 };
        (ietf, Hex(crate::refcrypto::sha512(&[b"pool", &[k]])[..n].to_vec()))
    });
    let req = prop_oneof![
        5 => std_req().prop_map(Dgram::Std),
        2 => (pool_nonce, prop_oneof![Just(256u16), 256u16..=375]).prop_map(|((ietf, nonce), words)| Dgram::Std(StdReq { ietf, words, nonce, srv: SrvOpt::Absent, vers: if ietf { vec![VER_DRAFT13] } else { vec![] } })),
        2 => invalid_dgram(),
    ];
    let nsock = 2u8..=48;
    (seed32(), batch_size_strategy(), nsock).prop_flat_map(move |(seed, batch_size, nsock)| {
        let step = vec_of((prop_oneof![30 => 0..nsock, 1 => Just(255u8), 3 => 200u8..212], req.clone()).prop_map(|(sock, d)| Send { sock, d }).boxed(), prop_oneof![2 => 1usize..=6, 3 => 2usize..=70, 1 => 60usize..=130]);
        (Just(seed), Just(batch_size), proptest::collection::vec(step, 1..=4), prop::bool::weighted(0.25)).prop_map(|(seed, batch_size, steps, ipv6)| Scenario { health_burst: if seed.0[29] % 16 == 0 { 70 } else if seed.0[29] % 16 == 1 { 3 } else { 0 }, interval_ms: if seed.0[31] % 25 == 1 { 25 } else { 0 }, ipv6, seed, batch_size, fault: 0, stats: false, steps })
    })
}

fn c09_step(ctx: &mut Ctx, lab: &Lab, o: &StepObs) -> Res {
    let nsocks = o.res.replies.len();
    let mut protos_in_step = std::collections::HashSet::new();
    let mut socks_involved = 0;
    for sock in 0..nsocks {
        let mine: Vec<&Sent> = o.sent.iter().filter(|s| s.sock == sock).collect();
        let replies = &o.res.replies[sock];
        let must = mine.iter().filter(|s| s.standard.is_some()).count();
        let may = mine.iter().filter(|s| s.wellformed.is_some()).count();
        if !mine.is_empty() {
            socks_involved += 1;
        }
        for s in &mine {
            if let Some(i) = &s.standard {
                protos_in_step.insert(i.proto);
            }
        }
        ctx.eval();
        if replies.len() < must {
            return ctx.fail("missing-reply", format!("socket {} sent {} standard valid requests (of {} datagrams) but received {} replies (batch_size {})", sock, must, mine.len(), replies.len(), lab.cfg.batch_size));
        }
        if replies.len() > may {
            return ctx.fail(
                if may == 0 { "reply-to-socket-that-sent-nothing-valid" } else { "extra-reply" },
                format!("socket {} sent {} answerable requests but received {} replies (batch_size {})", sock, may, replies.len(), lab.cfg.batch_size),
            );
        }
        // each reply is for one of this socket's own requests, one-to-one, in that request's protocol
        match match_strict(replies, &mine, &lab.pk) {
            Ok(m) => {
                // every standard request must be among the matched ones
                let matched: std::collections::HashSet<usize> = m.iter().map(|x| x.0).collect();
                for (si, s) in mine.iter().enumerate() {
                    if s.standard.is_some() && !matched.contains(&si) {
                        // an equal request (same bytes) may have been matched instead
                        let twin = mine.iter().enumerate().any(|(sj, t)| sj != si && matched.contains(&sj) && t.bytes == s.bytes);
                        let same_nonce_classic = mine.iter().enumerate().any(|(sj, t)| sj != si && matched.contains(&sj) && t.wellformed.as_ref().map(|i| (i.proto, &i.nonce)) == s.wellformed.as_ref().map(|i| (i.proto, &i.nonce)) && s.wellformed.as_ref().unwrap().proto == Proto::Classic);
                        if !twin && !same_nonce_classic {
                            return ctx.fail("request-without-own-reply", format!("socket {}: a standard request got no reply proving its own inclusion", sock));
                        }
                    }
                }
            }
            Err((ri, e)) => {
                let r = &replies[ri];
                return ctx.fail(
                    format!("reply-not-for-own-request|{}", e),
                    format!("socket {} received a reply ({} bytes, nonce echo {:?}) that verifies for none of its own unmatched requests: {}", sock, r.len(), parse_nonc(r).map(|n| hex(&n[..n.len().min(8)])), e),
                );
            }
        }
    }
    if o.res.sentinel_replies.len() != 1 {
        return ctx.fail("sentinel-reply-count", format!("{} datagrams for one sentinel request", o.res.sentinel_replies.len()));
    }
    let burst = o.sent.len() + 1;
    let bs = lab.cfg.batch_size as usize;
    let mix = protos_in_step.len() >= 2;
    if o.sent.iter().any(|s| s.sock == PORT0 && s.standard.is_some()) && o.res.port0_sent > 0 {
        // a valid request whose reply cannot be sent sat in a batch with the others, all of which were answered
        ctx.class("c09:batch-with-unsendable-reply");
    }
    let cls = if burst < bs { "burst<batch" } else if burst == bs { "burst=batch" } else { "burst>batch" };
    ctx.class(&format!("c09:{}:{}", cls, if mix { "mixed" } else { "single-proto" }));
    if (mix && socks_involved >= 2) || burst > bs {
        ctx.nontrivial(&(bs, burst, mix, o.sent.iter().map(|s| (s.sock, &s.bytes[..s.bytes.len().min(40)])).collect::<Vec<_>>()));
    }
    Ok(())
}

// ------------------------------------------------------------------------------------------------
// scenario runner
// ------------------------------------------------------------------------------------------------

pub fn run_scenario(ctx: &mut Ctx, which: Which, sc: &Scenario) -> Res {
    let mut cfg = LabCfg { seed: sc.seed.0.clone(), batch_size: sc.batch_size, fault: sc.fault, client_stats: sc.stats, ipv6: sc.ipv6 && ipv6_available(), ..Default::default() };
    if sc.interval_ms > 0 {
        cfg.status_interval = std::time::Duration::from_millis(sc.interval_ms as u64);
    }
    if sc.health_burst > 0 && !sc.ipv6 {
        cfg.health_port = std::net::TcpListener::bind("127.0.0.1:0").ok().and_then(|l| l.local_addr().ok()).map(|a| a.port());
    }
    let health_port = cfg.health_port;
    if sc.ipv6 {
        ctx.class(if cfg.ipv6 { "ipv6-loopback" } else { "ipv6-unavailable" });
    }
    let nsocks = 48;
    let mut lab = match Lab::new(cfg, nsocks) {
        Ok(l) => l,
        Err(e) => return ctx.fail("server-new-failed", e),
    };
    if !ctx.counting {
        // shrinking a failing case: a wedged worker is recognised after 1 s instead of 5 s
        lab.patience = std::time::Duration::from_secs(1);
    }
    // clients on well-known source ports (only where every port number is ours)
    let special = if NET_ISOLATED.load(std::sync::atomic::Ordering::SeqCst) && !sc.ipv6 { lab.add_port_socks(&SPECIAL_PORTS) } else { 0 };
    let mut tally = (0u64, 0u64);
    for (k, step) in sc.steps.iter().enumerate() {
        if sc.interval_ms > 0 {
            let end = std::time::Instant::now() + std::time::Duration::from_millis(3 * sc.interval_ms as u64);
            while std::time::Instant::now() < end {
                if let Err(p) = lab.idle_pump(1) {
                    return ctx.fail(format!("process-events-panic|{}", panic_site(&p)), p);
                }
            }
            ctx.class("scenario:after-status-intervals");
        }
        let pending_health: Vec<std::net::TcpStream> = match health_port {
            Some(hp) => (0..sc.health_burst).filter_map(|_| std::net::TcpStream::connect(("127.0.0.1", hp)).ok()).collect(),
            None => vec![],
        };
        if !pending_health.is_empty() {
            ctx.class("scenario:health-connections-pending");
        }
        let sent = materialize_special(&lab, step, nsocks, special);
        // keep oversized datagrams few so that nothing is dropped by the kernel
        let sends: Vec<(usize, Vec<u8>)> = sent.iter().map(|s| (s.sock, s.bytes.clone())).collect();
        let expect = sent.iter().filter(|s| s.standard.is_some() && s.sock != PORT0).count();
        let res = match lab.step(&sends, if sc.fault == 0 { expect } else { 0 }) {
            Ok(r) => r,
            Err(StepErr::Panic(p)) => {
                let fams: Vec<&str> = sent.iter().map(|s| s.family).collect();
                return ctx.fail(format!("process-events-panic|{}", panic_site(&p)), format!("process_events unwound: {} (log level {:?}, step {} families {:?})", p, log::max_level(), k, fams));
            }
            Err(StepErr::Wedged(m)) => return ctx.fail("wedged", format!("step {}: {}", k, m)),
        };
        let obs = StepObs { sent: &sent, res: &res };
        match which {
            Which::C02 => {
                if sc.fault == 0 {
                    c02_step(ctx, &lab, &obs, k)?
                } else {
                    c02_fault_step(ctx, &lab, &obs, &mut tally)?
                }
            }
            Which::C07 => c07_step(ctx, &lab, &obs)?,
            Which::C08 => {
                ctx.eval();
                let near = sent.iter().any(|s| s.family != "std-classic" && s.family != "std-ietf" && s.family != "junk" && s.family != "empty");
                ctx.class(&format!("c08:level={:?}:fault={}:{}", log::max_level(), if sc.fault > 0 { "on" } else { "off" }, if near { "near-valid" } else { "plain" }));
                for s in &sent {
                    ctx.class(&format!("c08:family:{}", s.family));
                }
                if near && log::max_level() >= log::LevelFilter::Debug {
                    ctx.nontrivial(&(format!("{:?}", log::max_level()), sent.iter().map(|s| &s.bytes[..s.bytes.len().min(64)]).collect::<Vec<_>>()));
                }
                if res.sentinel_replies.len() != 1 {
                    return ctx.fail("sentinel-reply-count", format!("{} datagrams for one sentinel", res.sentinel_replies.len()));
                }
                if sc.fault == 0 {
                    if let Err(e) = verify_strict(res.sentinel_proto, &res.sentinel_request, &res.sentinel_replies[0], &lab.pk) {
                        return ctx.fail(format!("sentinel-reply-invalid|{}", e), format!("after step {} the valid sentinel request was answered with an invalid reply: {}", k, e));
                    }
                }
            }
            Which::C09 => c09_step(ctx, &lab, &obs)?,
        }
    }
    if which == Which::C08 && sc.fault > 0 {
        // with faults on: a sentinel is answered validly within 40 attempts
        let mut ok = false;
        for _ in 0..40 {
            match lab.step(&[], 0) {
                Ok(r) => {
                    if r.sentinel_replies.len() == 1 && verify_strict(r.sentinel_proto, &r.sentinel_request, &r.sentinel_replies[0], &lab.pk).is_ok() {
                        ok = true;
                        break;
                    }
                }
                Err(StepErr::Panic(p)) => return ctx.fail(format!("process-events-panic|{}", panic_site(&p)), p),
                Err(StepErr::Wedged(m)) => return ctx.fail("wedged", m),
            }
        }
        if !ok {
            return ctx.fail("no-valid-sentinel-reply-in-40", format!("fault_percentage {}: 40 sentinels, none answered validly", sc.fault));
        }
    }
    let _ = take_logs();
    Ok(())
}

// fault-share statistic: n >= 2000 replies at fault p, failing count within 6 sigma of n*p
#[derive(Debug, Clone, Serialize, Deserialize)]
pub struct FaultShare {
    pub p: u8,
    pub n: u32,
    pub batch_size: u8,
}

pub fn fault_share(ctx: &mut Ctx, c: &FaultShare) -> Res {
    let cfg = LabCfg { seed: vec![0x11; 32], batch_size: c.batch_size, fault: c.p, ..Default::default() };
    let mut lab = match Lab::new(cfg, 48) {
        Ok(l) => l,
        Err(e) => return ctx.fail("server-new-failed", e),
    };
    if !ctx.counting {
        // shrinking a failing case: a wedged worker is recognised after 1 s instead of 5 s
        lab.patience = std::time::Duration::from_secs(1);
    }
    let mut tally = (0u64, 0u64);
    let mut k = 0u32;
    while tally.0 < c.n as u64 {
        let mut step = vec![];
        for j in 0..96u32 {
            k += 1;
            let ietf = k % 3 == 0;
            let n = if ietf { 32 } else { 64 };
            let nonce = Hex(crate::refcrypto::sha512(&[b"fs", &k.to_le_bytes()])[..n].to_vec());
            step.push(Send { sock: (j % 48) as u8, d: Dgram::Std(StdReq { ietf, words: 256, nonce, srv: SrvOpt::Absent, vers: if ietf { vec![VER_DRAFT13] } else { vec![] } }) });
        }
        let sent = materialize(&lab, &step, 48);
        let sends: Vec<(usize, Vec<u8>)> = sent.iter().map(|s| (s.sock, s.bytes.clone())).collect();
        let res = match lab.step(&sends, sends.len()) {
            Ok(r) => r,
            Err(StepErr::Panic(p)) => return ctx.fail(format!("process-events-panic|{}", panic_site(&p)), p),
            Err(StepErr::Wedged(m)) => return ctx.fail("wedged", m),
        };
        let got: usize = res.replies.iter().map(|r| r.len()).sum();
        if got != sends.len() {
            return ctx.fail("fault-run-reply-count", format!("{} standard requests, {} replies at fault {}%", sends.len(), got, c.p));
        }
        c02_fault_step(ctx, &lab, &StepObs { sent: &sent, res: &res }, &mut tally)?;
    }
    let n = tally.0 as f64;
    let p = c.p as f64 / 100.0;
    let sigma = (n * p * (1.0 - p)).sqrt();
    let dev = (tally.1 as f64 - n * p).abs();
    ctx.class(&format!("c02:fault-share:p={}", c.p));
    ctx.nontrivial(&("fault-share", c.p, c.batch_size));
    ctx.note(format!("fault p={}%: {} of {} replies failed (expected {:.0}, {:.2} sigma)", c.p, tally.1, tally.0, n * p, if sigma > 0.0 { dev / sigma } else { 0.0 }));
    if dev > 6.0 * sigma + 1.0 {
        return ctx.fail("fault-share-off", format!("fault_percentage {}: {} of {} replies failed verification, expected {:.0} +- {:.0} (6 sigma)", c.p, tally.1, tally.0, n * p, 6.0 * sigma));
    }
    Ok(())
}

pub fn run(which: Which, ctx: &mut Ctx) -> Vec<Violation> {
    let t = ctx.tier;
    let mut out = vec![];
    match which {
        Which::C02 => {
            install_logger(log::LevelFilter::Off);
            out.extend(run_prop(ctx, "scenario", t.pick(3_000, 30_000), 300, c02_scenario(false), |ctx, sc| {
                ctx.sample("scenario", 1, &(sc.batch_size, sc.steps.iter().map(|s| s.len()).collect::<Vec<_>>()));
                run_scenario(ctx, Which::C02, sc)
            }));
            out.extend(run_prop(ctx, "scenario-fault", t.pick(800, 8_000), 200, c02_scenario(true), |ctx, sc| run_scenario(ctx, Which::C02, sc)));
            // every (batch_size, burst) pair: a burst of exactly k standard requests at batch_size b
            let total = t.pick(64 * 4, 64 * 64);
            let v = run_enum(
                ctx,
                "size-grid",
                total,
                |i| {
                    let (b, k) = match t {
                        Tier::Quick => ((i / 4) as u8 + 1, [1usize, 2, 63, 64][(i % 4) as usize]),
                        Tier::Thorough => ((i / 64) as u8 + 1, (i % 64) as usize + 1),
                    };
                    let mut step = vec![];
                    for j in 0..k {
                        let ietf = (j + b as usize) % 2 == 0;
                        let n = if ietf { 32 } else { 64 };
                        let nonce = Hex(crate::refcrypto::sha512(&[b"grid", &[b], &(j as u32).to_le_bytes()])[..n].to_vec());
                        step.push(Send { sock: (j % 48) as u8, d: Dgram::Std(StdReq { ietf, words: 256 + (j as u16 * 7) % 120, nonce, srv: SrvOpt::Absent, vers: if ietf { vec![VER_DRAFT13] } else { vec![] } }) });
                    }
                    Scenario { health_burst: 0, interval_ms: 0, ipv6: false, seed: Hex(vec![b; 32]), batch_size: b, fault: 0, stats: false, steps: vec![step.clone(), step] }
                },
                |ctx, sc| run_scenario(ctx, Which::C02, sc),
            );
            if v.is_empty() && ctx.shard == 0 {
                ctx.stats.exhaustive_spaces.push(t.pick("batch_size 1..=64 x burst sizes {1,2,63,64}, two consecutive steps", "batch_size 1..=64 x burst sizes 1..=64, two consecutive steps").into());
            }
            out.extend(v);
            // several workers of the real binary signing concurrently
            out.extend(super::procs::c02_process_part(ctx));
            // fault share
            let ps: Vec<u8> = match t {
                Tier::Quick => vec![1, 10, 25, 50, 50, 50, 40, 30],
                Tier::Thorough => (1..=50).collect(),
            };
            let n = t.pick(2_400, 4_000);
            out.extend(run_enum(ctx, "fault-share", ps.len() as u64, |i| FaultShare { p: ps[i as usize], n, batch_size: [64u8, 16, 7, 1, 2, 4, 3, 2][(i % 8) as usize] }, |ctx, c| fault_share(ctx, c)));
        }
        Which::C07 => {
            install_logger(log::LevelFilter::Off);
            out.extend(run_prop(ctx, "scenario", t.pick(16_000, 160_000), 400, c07_scenario(), |ctx, sc| {
                ctx.sample("scenario", 1, &sc.steps[0].iter().take(3).collect::<Vec<_>>());
                run_scenario(ctx, Which::C07, sc)
            }));
            // every aligned nonce length that fits x both protocols x depth 0..=6 (thorough), coarse grid in quick
            let lens: Vec<u16> = match t {
                Tier::Quick => (0..=373u16).step_by(3).collect(),
                Tier::Thorough => (0..=373u16).collect(),
            };
            let depths: Vec<u8> = t.pick(vec![0u8, 6], vec![0, 1, 2, 3, 4, 5, 6]);
            let total = lens.len() as u64 * 2 * depths.len() as u64;
            let v = run_enum(
                ctx,
                "nonce-len-grid",
                total,
                |i| {
                    let depth = depths[(i % depths.len() as u64) as usize];
                    let r = i / depths.len() as u64;
                    let (ietf, nw) = (r % 2 == 1, lens[(r / 2) as usize]);
                    // the odd-nonce request sits in a full batch of 2^depth requests (maximum-depth path for depth 6)
                    let m = 1usize << depth;
                    let mut step = vec![Send { sock: 0, d: Dgram::NonceLen { ietf, nonce_words: nw, words: 256, fill: 0xab } }];
                    for j in 1..m {
                        let n = if ietf { 32 } else { 64 };
                        let nonce = Hex(crate::refcrypto::sha512(&[b"nl", &(j as u32).to_le_bytes()])[..n].to_vec());
                        step.push(Send { sock: (j % 47 + 1) as u8, d: Dgram::Std(StdReq { ietf, words: 256, nonce, srv: SrvOpt::Absent, vers: if ietf { vec![VER_DRAFT13] } else { vec![] } }) });
                    }
                    Scenario { health_burst: 0, interval_ms: 0, ipv6: false, seed: Hex(vec![3; 32]), batch_size: 64, fault: 0, stats: false, steps: vec![step] }
                },
                |ctx, sc| run_scenario(ctx, Which::C07, sc),
            );
            // every declared frame length 0..=2048 (and a few far values) on a 1024-byte IETF request, and every aligned
            // total size 960..=1560 of an otherwise well-formed request of both protocols, 32 datagrams per step
            let mut grid: Vec<Dgram> = vec![];
            let base = StdReq { ietf: true, words: 256, nonce: Hex(vec![0x6b; 32]), srv: SrvOpt::Absent, vers: vec![VER_DRAFT13] };
            for l in 0..=2048i32 {
                grid.push(Dgram::Field { base: base.clone(), m: FieldMut::FrameLen(l - 1012) });
            }
            for far in [0x1_0000i32 + 1012 - 1012, 0x10000, 0x7fff_0000, -0x10000, i32::MAX, i32::MIN] {
                grid.push(Dgram::Field { base: base.clone(), m: FieldMut::FrameLen(far) });
            }
            for ietf in [false, true] {
                for w in 240u16..=390 {
                    grid.push(Dgram::Std(StdReq { ietf, words: w, nonce: Hex(vec![0x6c; if ietf { 32 } else { 64 }]), srv: SrvOpt::Absent, vers: if ietf { vec![VER_DRAFT13] } else { vec![] } }));
                }
            }
            // the required tags plus every pair of known tags, in ascending wire order and with the pair exchanged
            grid.extend(tag_order_grid());
            let chunks: Vec<Vec<Dgram>> = grid.chunks(32).map(|c| c.to_vec()).collect();
            let v2 = run_enum(
                ctx,
                "framelen-size-grid",
                chunks.len() as u64,
                |i| Scenario { health_burst: 0, interval_ms: 0, ipv6: false, seed: Hex(vec![5; 32]), batch_size: 64, fault: 0, stats: false, steps: vec![chunks[i as usize].iter().enumerate().map(|(k, d)| Send { sock: k as u8, d: d.clone() }).collect()] },
                |ctx, sc| run_scenario(ctx, Which::C07, sc),
            );
            if v2.is_empty() && ctx.shard == 0 {
                ctx.stats.exhaustive_spaces.push("every declared frame length 0..=2048 on a 1024-byte IETF request; every aligned total size 960..=1560 of a well-formed request, both protocols; required tags + every pair of the 18 known tags in ascending and in exchanged order, both protocols".into());
            }
            out.extend(v2);
            if v.is_empty() && ctx.shard == 0 {
                ctx.stats.exhaustive_spaces.push(t.pick("nonce lengths 0,12,24..1492 x both protocols x batch depth {0,6}", "every aligned nonce length 0..=1492 x both protocols x batch depth 0..=6").into());
            }
            out.extend(v);
        }
        Which::C08 => {
            // one log level per worker process (log's max level is process-global)
            let level = level_from_index(ctx.shard);
            install_logger(level);
            ctx.note(format!("shard {} ran at log level {:?}", ctx.shard, level));
            out.extend(run_prop(ctx, &format!("scenario-{:?}", level), t.pick(18_000, 180_000), 400, c08_scenario(), |ctx, sc| {
                ctx.sample("scenario", 1, &sc.steps[0].iter().take(3).collect::<Vec<_>>());
                run_scenario(ctx, Which::C08, sc)
            }));
        }
        Which::C09 => {
            install_logger(log::LevelFilter::Off);
            out.extend(run_prop(ctx, "history", t.pick(8_000, 80_000), 300, c09_scenario(), |ctx, sc| {
                ctx.sample("history", 1, &(sc.batch_size, sc.steps.iter().map(|s| s.iter().map(|x| (x.sock, x.d.family())).collect::<Vec<_>>()).collect::<Vec<_>>()));
                run_scenario(ctx, Which::C09, sc)
            }));
        }
    }
    out
}

pub fn replay(which: Which, ctx: &mut Ctx, sub: &str, case: &Value) -> Res {
    if sub == "multi-worker-real-binary" {
        return super::procs::replay_c18(ctx, sub, case);
    }
    if sub == "fault-share" {
        install_logger(log::LevelFilter::Off);
        return replay_case::<FaultShare, _>(ctx, case, |ctx, c| fault_share(ctx, c));
    }
    if which == Which::C08 {
        // sub name carries the level: scenario-Debug
        let lvl = match sub.rsplit('-').next().unwrap_or("") {
            "Off" => log::LevelFilter::Off,
            "Error" => log::LevelFilter::Error,
            "Warn" => log::LevelFilter::Warn,
            "Info" => log::LevelFilter::Info,
            "Debug" => log::LevelFilter::Debug,
            _ => log::LevelFilter::Trace,
        };
        install_logger(lvl);
    } else {
        install_logger(log::LevelFilter::Off);
    }
    replay_case::<Scenario, _>(ctx, case, |ctx, sc| run_scenario(ctx, which, sc))
}
