//! C17 — request statistics conserve events, stay bounded, and match the traffic served.

use crate::engine::*;
use crate::gen::*;
use crate::refproto::*;
use crate::reqgen::*;
use crate::srvlab::*;
use super::server::{materialize, Send};
use proptest::prelude::*;
use roughenough::stats::{AggregatedStats, ClientStats, PerClientStats, Reporter, ServerStats, StatsQueue};
use roughenough::Error;
use serde::{Deserialize, Serialize};
use serde_json::Value;
use std::collections::{BTreeMap, HashMap};
use std::net::IpAddr;
use std::sync::Arc;
use std::time::Duration;

// two IPv4 addresses, one IPv6, and the IPv4-mapped IPv6 form of the first (a distinct client address)
const ADDRS: [&str; 4] = ["10.0.0.1", "10.0.0.2", "2001:db8::1", "::ffff:10.0.0.1"];

fn addr(i: u8) -> IpAddr {
    ADDRS[i as usize % 4].parse().unwrap()
}

/// the eight recording operations
#[derive(Debug, Clone, Copy, Serialize, Deserialize, PartialEq, Eq, Hash)]
pub enum Kind {
    IetfReq,
    ClassicReq,
    Invalid,
    FailedSend,
    RetriedSend,
    Health,
    RfcResp,
    ClassicResp,
}
const KINDS: [Kind; 8] = [Kind::IetfReq, Kind::ClassicReq, Kind::Invalid, Kind::FailedSend, Kind::RetriedSend, Kind::Health, Kind::RfcResp, Kind::ClassicResp];

#[derive(Debug, Clone, Copy, Serialize, Deserialize, PartialEq, Eq, Hash)]
pub struct Op {
    pub kind: Kind,
    pub addr: u8,
    pub bytes: u16,
}

fn apply(s: &mut dyn ServerStats, op: &Op) {
    let a = addr(op.addr);
    match op.kind {
        Kind::IetfReq => s.add_ietf_request(&a),
        Kind::ClassicReq => s.add_classic_request(&a),
        Kind::Invalid => s.add_invalid_request(&a, &Error::RequestTooShort),
        Kind::FailedSend => s.add_failed_send_attempt(&a),
        Kind::RetriedSend => s.add_retried_send_attempt(&a),
        Kind::Health => s.add_health_check(&a),
        Kind::RfcResp => s.add_rfc_response(&a, op.bytes as usize),
        Kind::ClassicResp => s.add_classic_response(&a, op.bytes as usize),
    }
}

/// the nine counters of one address, in a fixed order
fn counters(c: Option<&ClientStats>) -> [u64; 9] {
    match c {
        None => [0; 9],
        Some(c) => [
            c.rfc_requests as u64,
            c.classic_requests as u64,
            c.invalid_requests as u64,
            c.failed_send_attempts as u64,
            c.retried_send_attempts as u64,
            c.health_checks as u64,
            c.rfc_responses_sent as u64,
            c.classic_responses_sent as u64,
            c.bytes_sent as u64,
        ],
    }
}

fn kind_index(k: Kind) -> usize {
    KINDS.iter().position(|x| *x == k).unwrap()
}

type Snapshot = ([[u64; 9]; 4], u64, u64);

fn snapshot(s: &PerClientStats) -> Snapshot {
    let mut a = [[0u64; 9]; 4];
    for i in 0..4u8 {
        a[i as usize] = counters(s.stats_for_client(&addr(i)));
    }
    (a, s.num_overflows(), s.total_unique_clients())
}

fn totals(s: &dyn ServerStats) -> [u64; 11] {
    [
        s.total_valid_requests(),
        s.num_rfc_requests(),
        s.num_classic_requests(),
        s.total_invalid_requests(),
        s.total_health_checks(),
        s.total_failed_send_attempts(),
        s.total_retried_send_attempts(),
        s.total_responses_sent(),
        s.num_rfc_responses_sent(),
        s.num_classic_responses_sent(),
        s.total_bytes_sent() as u64,
    ]
}

#[derive(Debug, Clone, Serialize, Deserialize)]
pub struct History {
    pub limit: u8,
    pub ops: Vec<Op>,
    /// positions (indices into ops) after which the recorder is snapshotted and cleared, as the server's timer does
    #[serde(default)]
    pub clears: Vec<u16>,
}

/// step invariant + bound + Aggregated == PerClient while no overflow
fn check_history(ctx: &mut Ctx, h: &History) -> Res {
    let limit = h.limit.max(1) as usize;
    let mut per = PerClientStats::verif_with_limit(limit);
    let mut agg = AggregatedStats::new();
    let mut overflowed = false;
    for (n, op) in h.ops.iter().enumerate() {
        ctx.eval();
        let before = snapshot(&per);
        if let Err(p) = no_unwind(|| {
            apply(&mut per, op);
            apply(&mut agg, op);
        }) {
            return ctx.fail("recording-panic", format!("op #{} {:?}: {}", n, op, p));
        }
        let after = snapshot(&per);
        // exactly one of {that kind's counter of that address, overflow} changed
        let ai = op.addr as usize % 4;
        let ki = kind_index(op.kind);
        let is_resp = matches!(op.kind, Kind::RfcResp | Kind::ClassicResp);
        let mut want_counted = before.clone();
        want_counted.0[ai][ki] += 1;
        if is_resp {
            want_counted.0[ai][8] += op.bytes as u64;
        }
        let mut want_overflow = before.clone();
        want_overflow.1 += 1;
        let counted = after.0 == want_counted.0 && after.1 == want_counted.1;
        let over = after.0 == want_overflow.0 && after.1 == want_overflow.1;
        if !(counted ^ over) {
            return ctx.fail(
                format!("event-not-reflected-exactly-once|{:?}", op.kind),
                format!("limit {} op #{} {:?}: before {:?} after {:?} (neither 'own counter +1' nor 'overflow +1' alone)", limit, n, op, before, after),
            );
        }
        if over {
            overflowed = true;
        }
        if after.2 > limit as u64 {
            return ctx.fail("limit-exceeded", format!("limit {} but {} tracked addresses after op #{} {:?}", limit, after.2, n, op));
        }
        let tracked = (0..4u8).filter(|i| per.stats_for_client(&addr(*i)).is_some()).count() as u64;
        if tracked != after.2 {
            return ctx.fail("unique-clients-inconsistent", format!("total_unique_clients {} but {} of the pool addresses are tracked", after.2, tracked));
        }
        if !overflowed && totals(&per) != totals(&agg) {
            return ctx.fail("aggregated-differs-from-per-client", format!("after op #{} {:?}: per-client totals {:?} aggregated {:?}", n, op, totals(&per), totals(&agg)));
        }
        if h.clears.iter().any(|c| *c as usize == n) {
            // snapshot + clear: afterwards every counter, total and the overflow count start from zero again
            per.clear();
            agg.clear();
            overflowed = false;
            let z = snapshot(&per);
            if z.0 != [[0u64; 9]; 4] || z.1 != 0 || z.2 != 0 || totals(&per) != [0u64; 11] || totals(&agg) != [0u64; 11] {
                return ctx.fail("clear-leaves-residue", format!("after clear() following op #{}: per-client {:?} totals {:?}, aggregated totals {:?}", n, z, totals(&per), totals(&agg)));
            }
        }
    }
    if overflowed {
        ctx.nontrivial(&(h.limit, &h.ops));
    }
    Ok(())
}

// -------------------------------------------------------------- worker splits + reporter merge

#[derive(Debug, Clone, Serialize, Deserialize)]
pub struct SplitCase {
    /// also let the reporter persist its merged map (zstd-compressed CSV) and compare the decoded file
    #[serde(default)]
    pub csv: bool,
    pub workers: u8,
    /// (worker, op) in global order; `snap` = that worker publishes a snapshot (iter -> queue -> clear) after the op
    pub events: Vec<(u8, Op, bool)>,
}

fn check_split(ctx: &mut Ctx, c: &SplitCase) -> Res {
    ctx.eval();
    let nw = c.workers.max(1) as usize;
    let queue = Arc::new(StatsQueue::new(c.events.len() + nw + 1));
    let mut recs: Vec<PerClientStats> = (0..nw).map(|_| PerClientStats::verif_with_limit(8)).collect();
    let mut model: BTreeMap<IpAddr, [u64; 9]> = BTreeMap::new();
    let mut snaps = vec![0usize; nw];
    let publish = |r: &mut PerClientStats, q: &Arc<StatsQueue>| {
        // exactly what Server::send_client_stats does
        let clients: Vec<ClientStats> = r.iter().map(|(_, s)| *s).collect();
        if !clients.is_empty() {
            q.force_push(clients);
            r.clear();
        }
    };
    for (w, op, snap) in &c.events {
        let w = *w as usize % nw;
        apply(&mut recs[w], op);
        let e = model.entry(addr(op.addr)).or_insert([0; 9]);
        e[kind_index(op.kind)] += 1;
        if matches!(op.kind, Kind::RfcResp | Kind::ClassicResp) {
            e[8] += op.bytes as u64;
        }
        if *snap {
            publish(&mut recs[w], &queue);
            snaps[w] += 1;
        }
    }
    for r in recs.iter_mut() {
        publish(r, &queue);
    }
    let dir = if c.csv { Some(crate::proclab::scratch_dir("c17csv")) } else { None };
    let mut reporter = Reporter::new(queue.clone(), &Duration::from_secs(3600), dir.clone());
    if let Err(p) = no_unwind(|| reporter.receive_client_stats()) {
        return ctx.fail("reporter-panic", p);
    }
    let merged = reporter.verif_client_stats();
    let mut got: BTreeMap<IpAddr, [u64; 9]> = BTreeMap::new();
    for m in &merged {
        if got.insert(m.ip_addr, counters(Some(m))).is_some() {
            return ctx.fail("merge-duplicate-address", format!("address {} appears twice in the merged map", m.ip_addr));
        }
    }
    if got != model {
        return ctx.fail("merge-loses-or-invents-events", format!("{} workers, snapshots {:?}: merged {:?} but the per-address sums of the recorded events are {:?}", nw, snaps, got, model));
    }
    if let Some(dir) = dir {
        // what the reporter persists must be the same per-address sums
        let r = no_unwind(|| reporter.report());
        let mut rows: BTreeMap<IpAddr, [u64; 9]> = BTreeMap::new();
        let mut files = 0;
        if let Ok(rd) = std::fs::read_dir(&dir) {
            for e in rd.flatten() {
                files += 1;
                let raw = std::fs::read(e.path()).unwrap_or_default();
                let txt = zstd::stream::decode_all(&raw[..]).unwrap_or_default();
                let mut rdr = csv::ReaderBuilder::new().has_headers(true).from_reader(&txt[..]);
                let hdr: Vec<String> = rdr.headers().map(|h| h.iter().map(|x| x.to_string()).collect()).unwrap_or_default();
                let col = |name: &str| hdr.iter().position(|h| h == name);
                let names = ["rfc_requests", "classic_requests", "invalid_requests", "failed_send_attempts", "retried_send_attempts", "health_checks", "rfc_responses_sent", "classic_responses_sent", "bytes_sent"];
                for rec in rdr.records().flatten() {
                    let ip: Option<IpAddr> = col("ip_addr").and_then(|i| rec.get(i)).and_then(|x| x.parse().ok());
                    let mut v = [0u64; 9];
                    for (k, n) in names.iter().enumerate() {
                        v[k] = col(n).and_then(|i| rec.get(i)).and_then(|x| x.parse().ok()).unwrap_or(u64::MAX);
                    }
                    if let Some(ip) = ip {
                        rows.insert(ip, v);
                    }
                }
            }
        }
        let _ = std::fs::remove_dir_all(&dir);
        if let Err(p) = r {
            return ctx.fail("report-panic", p);
        }
        if !model.is_empty() && (files != 1 || rows != model) {
            return ctx.fail("persisted-report-differs-from-events", format!("{} file(s) written; decoded rows {:?} but the per-address sums of the recorded events are {:?}", files, rows, model));
        }
        ctx.class("c17:split:csv-report-decoded");
    }
    let nt = nw >= 2 && snaps.iter().sum::<usize>() >= 2;
    ctx.class(&format!("c17:split:workers={}:{}", nw, if nt { "multi-snapshot" } else { "simple" }));
    if nt {
        ctx.nontrivial(&c.events);
    }
    Ok(())
}

// -------------------------------------------------------------- server wiring

#[derive(Debug, Clone, Serialize, Deserialize)]
pub struct TrafficCase {
    /// number of TCP health-check connections made (0 = no health port configured)
    #[serde(default)]
    pub health_checks: u8,
    pub seed: Hex,
    pub batch_size: u8,
    pub stats: bool,
    pub steps: Vec<Vec<Send>>,
    /// fault_percentage of the server (deliberately corrupted replies are still replies: they are sent and must be counted)
    #[serde(default)]
    pub fault: u8,
    /// > 0: status_interval is 1 s (statistics timer every 100 ms) and after every step the server idles across
    /// this many timer periods before the totals are read
    #[serde(default)]
    pub ticks: u8,
}

fn check_traffic(ctx: &mut Ctx, c: &TrafficCase) -> Res {
    ctx.eval();
    // a free TCP port for the health check (the worker runs in its own network namespace, so any port is ours)
    let hc_port = if c.health_checks > 0 { std::net::TcpListener::bind("127.0.0.1:0").ok().and_then(|l| l.local_addr().ok()).map(|a| a.port()) } else { None };
    let cfg = LabCfg { seed: c.seed.0.clone(), batch_size: c.batch_size, client_stats: c.stats, health_port: hc_port, fault: c.fault, status_interval: if c.ticks > 0 { Duration::from_secs(1) } else { Duration::from_secs(600) }, ..Default::default() };
    let mut lab = match Lab::new(cfg, 16) {
        Ok(l) => l,
        Err(e) => return ctx.fail("server-new-failed", e),
    };
    let (mut datagrams, mut classic, mut ietf, mut bytes) = (0u64, 0u64, 0u64, 0u64);
    let (mut p0_classic, mut p0_ietf) = (0u64, 0u64);
    let mut health_done = 0u64;
    if let Some(port) = hc_port {
        use std::io::Read;
        for _ in 0..c.health_checks {
            // connect (completes in the kernel's accept queue), let the server handle it, read the fixed response
            let mut st = match std::net::TcpStream::connect(("127.0.0.1", port)) {
                Ok(s) => s,
                Err(e) => return ctx.fail("health-connect-failed", e.to_string()),
            };
            let res = match lab.step(&[], 0) {
                Ok(r) => r,
                Err(p) => return ctx.fail("health-step-failed", format!("{:?}", p)),
            };
            datagrams += 1; // the sentinel of that step
            for r in res.sentinel_replies.iter() {
                if r.len() >= 8 && &r[0..8] == b"ROUGHTIM" {
                    ietf += 1
                } else {
                    classic += 1
                }
                bytes += r.len() as u64;
            }
            st.set_read_timeout(Some(Duration::from_secs(2))).unwrap();
            let mut got = Vec::new();
            let _ = st.read_to_end(&mut got);
            if !got.starts_with(b"HTTP/1.") {
                // what the response says exactly is C15's business; here the connection only has to be served and counted
                return ctx.fail("health-connection-not-served", format!("read {:?}", String::from_utf8_lossy(&got)));
            }
            health_done += 1;
        }
    }
    for step in &c.steps {
        let sent = materialize(&lab, step, 16);
        let sends: Vec<(usize, Vec<u8>)> = sent.iter().map(|s| (s.sock, s.bytes.clone())).collect();
        let expect = sent.iter().filter(|s| s.standard.is_some() && s.sock != PORT0).count();
        // requests arriving with source port 0 are accepted and answered, but the answer cannot be sent: they count
        // as valid requests and as failed send attempts, never as responses
        let p0: Vec<&super::server::Sent> = sent.iter().filter(|s| s.sock == PORT0).collect();
        let res = match lab.step(&sends, if c.fault == 0 { expect } else { 0 }) {
            Ok(r) => r,
            Err(StepErr::Panic(p)) => return ctx.fail(format!("process-events-panic|{}", panic_site(&p)), p),
            Err(StepErr::Wedged(m)) => return ctx.fail("wedged", m),
        };
        datagrams += res.sent_ok as u64 + 1;
        if res.port0_sent != p0.len() {
            // raw sockets unavailable (or a send failed): the case cannot be accounted for exactly
            ctx.class("c17:traffic:port0-unavailable");
            return Ok(());
        }
        for s in &p0 {
            match (&s.standard, &s.wellformed) {
                (Some(i), _) => {
                    if i.proto == Proto::Ietf {
                        p0_ietf += 1
                    } else {
                        p0_classic += 1
                    }
                }
                (None, Some(_)) => {
                    // may or may not be accepted, and the reply that would tell cannot be observed
                    ctx.class("c17:traffic:port0-borderline-request");
                    return Ok(());
                }
                (None, None) => {}
            }
        }
        for r in res.replies.iter().flatten().chain(res.sentinel_replies.iter()) {
            if r.len() >= 8 && &r[0..8] == b"ROUGHTIM" {
                ietf += 1
            } else {
                classic += 1
            }
            bytes += r.len() as u64;
        }
        if c.ticks > 0 {
            // idle across timer periods: the worker publishes/clears per-client snapshots, aggregated totals stay
            let end = std::time::Instant::now() + Duration::from_millis(105 * c.ticks.min(3) as u64);
            while std::time::Instant::now() < end {
                if let Err(p) = lab.idle_pump(1) {
                    return ctx.fail(format!("process-events-panic|{}", panic_site(&p)), p);
                }
            }
        }
    }
    if c.ticks > 0 && c.stats {
        // per-client mode across timer periods: what the worker still holds plus every snapshot it published
        let lo: IpAddr = "127.0.0.1".parse().unwrap();
        let mut sum = counters(lab.server.verif_stats().stats_for_client(&lo));
        let mut snaps = 0;
        while let Some(snap) = lab.queue.pop() {
            snaps += 1;
            for cs in &snap {
                if cs.ip_addr != lo {
                    return ctx.fail("snapshot-for-unknown-address", format!("{:?}", cs.ip_addr));
                }
                let x = counters(Some(cs));
                for i in 0..9 {
                    sum[i] += x[i];
                }
            }
        }
        let want = [ietf + p0_ietf, classic + p0_classic, datagrams - classic - ietf - p0_classic - p0_ietf, p0_classic + p0_ietf, 0, health_done, ietf, classic, bytes];
        if sum != want {
            return ctx.fail(
                "snapshots-plus-held-differ-from-traffic",
                format!("client_stats on, {} published snapshots: held + published [rfc, classic, invalid, failed, retried, health, rfc-resp, classic-resp, bytes] = {:?}, the sockets saw {:?}", snaps, sum, want),
            );
        }
        ctx.class(&format!("c17:traffic:stats=true:across-timer-periods:snapshots={}", snaps.min(3)));
        ctx.nontrivial(&("traffic-ticks", datagrams, classic, ietf, bytes, snaps));
        return Ok(());
    }
    let st = lab.server.verif_stats();
    let got = totals(st);
    // every accepted request is answered exactly once (C09), so replies observed == requests accepted
    let p0 = p0_classic + p0_ietf;
    let want = [classic + ietf + p0, ietf + p0_ietf, classic + p0_classic, datagrams - classic - ietf - p0, health_done, p0, 0, classic + ietf, ietf, classic, bytes];
    if got != want {
        return ctx.fail(
            "recorded-totals-differ-from-traffic",
            format!(
                "client_stats={} batch_size={}: recorded [valid, rfc, classic, invalid, health, failed, retried, responses, rfc-resp, classic-resp, bytes] = {:?} but the sockets saw {:?} ({} datagrams delivered)",
                c.stats, c.batch_size, got, want, datagrams
            ),
        );
    }
    if c.stats {
        // all traffic came from 127.0.0.1
        let lo: IpAddr = "127.0.0.1".parse().unwrap();
        let per = counters(st.stats_for_client(&lo));
        if per[0] != ietf + p0_ietf || per[1] != classic + p0_classic || per[3] != p0 || per[5] != health_done || per[8] != bytes || st.total_unique_clients() != 1 {
            return ctx.fail("per-client-entry-differs-from-traffic", format!("entry for 127.0.0.1 = {:?}, unique clients {}", per, st.total_unique_clients()));
        }
    }
    if c.ticks > 0 {
        ctx.class("c17:traffic:stats=false:across-timer-periods");
    }
    if p0 > 0 {
        ctx.class("c17:traffic:with-failed-sends");
    }
    ctx.class(&format!("c17:traffic:stats={}:fault={}:{}", c.stats, if c.fault > 0 { "on" } else { "off" }, if classic > 0 && ietf > 0 && datagrams > classic + ietf { "mixed+invalid" } else { "simple" }));
    ctx.nontrivial(&("traffic", c.stats, datagrams, classic, ietf, bytes));
    Ok(())
}

/// many client addresses within one statistics period, with the queue capacity the server binary has for one worker
#[derive(Debug, Clone, Serialize, Deserialize)]
pub struct ManyClients {
    pub addrs: u16,
    pub queue_cap: u8,
    /// datagrams per address
    pub per_addr: u8,
}

fn check_many_clients(ctx: &mut Ctx, c: &ManyClients) -> Res {
    ctx.eval();
    if !NET_ISOLATED.load(std::sync::atomic::Ordering::SeqCst) {
        ctx.class("c17:many-clients:skipped-no-private-netns");
        return Ok(());
    }
    let cfg = LabCfg { seed: vec![0x33; 32], batch_size: 64, client_stats: true, status_interval: Duration::from_secs(1), queue_cap: c.queue_cap.max(1) as usize, ..Default::default() };
    let mut lab = match Lab::new(cfg, 1) {
        Ok(l) => l,
        Err(e) => return ctx.fail("server-new-failed", e),
    };
    // one datagram that is not a request from each of `addrs` distinct loopback addresses (127.1.x.y)
    let mut sent = 0usize;
    for a in 0..c.addrs as u32 {
        let ip = std::net::Ipv4Addr::new(127, 1 + (a >> 16) as u8, (a >> 8) as u8, a as u8);
        let sock = match std::net::UdpSocket::bind((ip, 0)) {
            Ok(s) => s,
            Err(_) => {
                ctx.class("c17:many-clients:cannot-bind-loopback-alias");
                return Ok(());
            }
        };
        for _ in 0..c.per_addr.max(1) {
            if sock.send_to(&[0x42], lab.addr).is_ok() {
                sent += 1;
            }
        }
    }
    if sent != c.addrs as usize * c.per_addr.max(1) as usize {
        return Ok(());
    }
    if let Err(e) = lab.step(&[], 0) {
        return ctx.fail("process-events-failed", format!("{:?}", e));
    }
    // across exactly one statistics timer period (100 ms): the worker publishes what it holds
    let end = std::time::Instant::now() + Duration::from_millis(115);
    while std::time::Instant::now() < end {
        if let Err(p) = lab.idle_pump(1) {
            return ctx.fail(format!("process-events-panic|{}", panic_site(&p)), p);
        }
    }
    let mut per: HashMap<IpAddr, u64> = HashMap::new();
    for (ip, cs) in lab.server.verif_stats().iter() {
        *per.entry(*ip).or_insert(0) += cs.invalid_requests as u64;
    }
    let mut snaps = 0;
    while let Some(snap) = lab.queue.pop() {
        snaps += 1;
        for cs in &snap {
            *per.entry(cs.ip_addr).or_insert(0) += cs.invalid_requests as u64;
        }
    }
    let lo: IpAddr = "127.0.0.1".parse().unwrap();
    per.remove(&lo);
    let complete = per.values().filter(|v| **v == c.per_addr.max(1) as u64).count();
    if per.len() != c.addrs as usize || complete != c.addrs as usize {
        return ctx.fail(
            "published-snapshots-lose-clients",
            format!("{} addresses sent {} datagram(s) each within one statistics period (queue capacity {}): what the worker still holds plus the {} snapshot(s) it published accounts for {} addresses, {} of them completely", c.addrs, c.per_addr.max(1), c.queue_cap, snaps, per.len(), complete),
        );
    }
    ctx.class(&format!("c17:many-clients:{}:snapshots={}", if c.addrs > 2048 { ">2048" } else if c.addrs > 1024 { ">1024" } else { "<=1024" }, snaps.min(3)));
    ctx.nontrivial(&(c.addrs, c.queue_cap, c.per_addr));
    Ok(())
}

fn op_strategy(bytes_fixed: bool) -> impl Strategy<Value = Op> {
    (0usize..8, 0u8..4, if bytes_fixed { Just(7u16).boxed() } else { prop::sample::select(vec![0u16, 1, 7, 1500]).boxed() }).prop_map(|(k, addr, bytes)| Op { kind: KINDS[k], addr, bytes })
}

pub fn run(ctx: &mut Ctx) -> Vec<Violation> {
    install_logger(log::LevelFilter::Off);
    let t = ctx.tier;
    let mut out = vec![];
    // bounded-exhaustive: all histories of length <= L over 32 ops (8 kinds x 4 addresses) x limits 1..=3
    let max_len: u32 = t.pick(4, 5);
    let per_limit: u64 = (0..=max_len).map(|l| 32u64.pow(l)).sum();
    let total = per_limit * 3;
    let v = run_enum(
        ctx,
        "exh-histories",
        total,
        |i| {
            let limit = (i / per_limit) as u8 + 1;
            let mut r = i % per_limit;
            let mut len = 0u32;
            loop {
                let c = 32u64.pow(len);
                if r < c {
                    break;
                }
                r -= c;
                len += 1;
            }
            let mut ops = vec![];
            for _ in 0..len {
                let d = (r % 32) as usize;
                r /= 32;
                ops.push(Op { kind: KINDS[d % 8], addr: (d / 8) as u8, bytes: 7 });
            }
            History { limit, ops, clears: vec![] }
        },
        |ctx, h| check_history(ctx, h),
    );
    if v.is_empty() && ctx.shard == 0 {
        ctx.stats.exhaustive_spaces.push(format!("all {} histories of length 0..={} over 32 operations (8 kinds x 4 addresses incl. an IPv4-mapped IPv6 one) x limits 1..=3", total, max_len));
        ctx.sample("exh-histories", 1, &History { limit: 1, ops: vec![Op { kind: Kind::ClassicReq, addr: 0, bytes: 7 }, Op { kind: Kind::RfcResp, addr: 1, bytes: 7 }], clears: vec![] });
    }
    out.extend(v);
    // many client addresses within one statistics period, worker-to-reporter queue as small as the binary's
    {
        let mut cases = vec![];
        for (addrs, queue_cap, per_addr) in [(300u16, 2u8, 1u8), (1024, 2, 1), (1025, 2, 2), (2048, 2, 1), (2049, 2, 1), (2100, 2, 1), (3100, 2, 1), (2100, 4, 1), (5000, 2, 1), (4100, 4, 2)] {
            cases.push(ManyClients { addrs, queue_cap, per_addr });
        }
        out.extend(run_enum(ctx, "many-clients", cases.len() as u64, |i| cases[i as usize].clone(), |ctx, c| check_many_clients(ctx, c)));
    }
    // random long histories
    let hist = (1u8..=3, prop_oneof![3 => vec_of(op_strategy(false).boxed(), 0usize..=60), 1 => vec_of(op_strategy(false).boxed(), 1_000usize..=10_000)]).prop_flat_map(|(limit, ops)| {
        let n = ops.len().max(1) as u16;
        (Just(limit), Just(ops), proptest::collection::vec(0..n, 0..=3)).prop_map(|(limit, ops, clears)| History { limit, ops, clears })
    });
    out.extend(run_prop(ctx, "random-histories", t.pick(20_000, 200_000), 500, hist, |ctx, h| check_history(ctx, h)));
    // splits across workers with snapshot points
    let split = (1u8..=4, vec_of((0u8..4, op_strategy(false), prop::bool::weighted(0.15)).boxed(), 0usize..=80)).prop_map(|(workers, events)| SplitCase { csv: false, workers, events });
    out.extend(run_prop(ctx, "worker-splits", t.pick(4_000, 40_000), 300, split, |ctx, c| {
        ctx.sample("worker-splits", 1, c);
        check_split(ctx, c)
    }));
    // the same with the reporter persisting its map: the decoded zstd CSV must carry the same sums
    let split_csv = (1u8..=4, vec_of((0u8..4, op_strategy(false), prop::bool::weighted(0.15)).boxed(), 1usize..=60)).prop_map(|(workers, events)| SplitCase { csv: true, workers, events });
    out.extend(run_prop(ctx, "worker-splits-csv", t.pick(400, 8_000), 200, split_csv, |ctx, c| check_split(ctx, c)));
    // traffic served by an in-process server
    let step = vec_of((super::server::sock_strategy(16), prop_oneof![3 => std_req().prop_map(Dgram::Std), 2 => any_dgram()]).prop_map(|(sock, d)| Send { sock, d }).boxed(), 0usize..=40);
    let traffic = (seed32(), prop::sample::select(vec![1u8, 3, 16, 64]), prop::bool::weighted(0.15), proptest::collection::vec(step, 1..=3), prop_oneof![3 => Just(0u8), 1 => 1u8..=4], prop_oneof![3 => Just(0u8), 1 => 1u8..=50], prop_oneof![24 => Just(0u8), 1 => 1u8..=2]).prop_map(|(seed, batch_size, stats, steps, health_checks, fault, ticks)| TrafficCase { health_checks, seed, batch_size, stats, steps, fault, ticks });
    out.extend(run_prop(ctx, "traffic", t.pick(8_000, 64_000), 200, traffic, |ctx, c| {
        ctx.sample("traffic", 1, &(c.stats, c.batch_size, c.steps.iter().map(|s| s.len()).collect::<Vec<_>>()));
        check_traffic(ctx, c)
    }));
    out
}

pub fn replay(ctx: &mut Ctx, sub: &str, case: &Value) -> Res {
    install_logger(log::LevelFilter::Off);
    match sub {
        "exh-histories" | "random-histories" => replay_case::<History, _>(ctx, case, |ctx, h| check_history(ctx, h)),
        "worker-splits" | "worker-splits-csv" => replay_case::<SplitCase, _>(ctx, case, |ctx, c| check_split(ctx, c)),
        "many-clients" => replay_case::<ManyClients, _>(ctx, case, |ctx, c| check_many_clients(ctx, c)),
        "traffic" => replay_case::<TrafficCase, _>(ctx, case, |ctx, c| check_traffic(ctx, c)),
        _ => Err(viol("bad-replay-file", format!("unknown sub {}", sub))),
    }
}

#[allow(dead_code)]
fn unused(_: Proto) {}
