//! C14 — envelope-encrypted seed: round-trips, detects tampering, leaks nothing.

use crate::engine::*;
use crate::gen::*;
use crate::refcodec::hex;
use crate::refcrypto::sha512;
use proptest::prelude::*;
use roughenough::kms::{EnvelopeEncryption, KmsError, KmsProvider};
use serde::{Deserialize, Serialize};
use serde_json::Value;
use std::cell::RefCell;

/// Authenticating table KMS: wraps a DEK into an opaque handle of the chosen length and only unwraps
/// an exactly matching handle (like a real KMS, every wrapped byte is authenticated; the DEK never
/// appears in the handle).
pub struct TableKms {
    pub wrapped_len: usize,
    pub table: RefCell<Vec<(Vec<u8>, Vec<u8>)>>,
    pub fault: Fault,
    pub salt: u64,
}

#[derive(Debug, Clone, Copy, PartialEq, Eq, Serialize, Deserialize)]
pub enum Fault {
    None,
    ErrEncrypt,
    ErrDecrypt,
    WrongKey,
    KeyLen(u8),
    /// the right key followed by n extra bytes (a different key of the wrong length)
    RightKeyPlus(u8),
    /// only the first n bytes of the right key
    RightKeyPrefix(u8),
}

impl TableKms {
    pub fn new(wrapped_len: usize, fault: Fault, salt: u64) -> Self {
        TableKms { wrapped_len, table: RefCell::new(vec![]), fault, salt }
    }
    pub fn last_dek(&self) -> Option<Vec<u8>> {
        self.table.borrow().last().map(|e| e.1.clone())
    }
}

impl KmsProvider for TableKms {
    fn encrypt_dek(&self, plaintext_dek: &Vec<u8>) -> Result<Vec<u8>, KmsError> {
        if self.fault == Fault::ErrEncrypt {
            return Err(KmsError::OperationFailed("injected encrypt failure".into()));
        }
        let n = self.table.borrow().len() as u64;
        let mut handle = Vec::with_capacity(self.wrapped_len);
        let mut ctr = 0u64;
        while handle.len() < self.wrapped_len {
            handle.extend_from_slice(&sha512(&[b"handle", &self.salt.to_le_bytes(), &n.to_le_bytes(), &ctr.to_le_bytes()]));
            ctr += 1;
        }
        handle.truncate(self.wrapped_len);
        self.table.borrow_mut().push((handle.clone(), plaintext_dek.clone()));
        Ok(handle)
    }

    fn decrypt_dek(&self, encrypted_dek: &Vec<u8>) -> Result<Vec<u8>, KmsError> {
        match self.fault {
            Fault::ErrDecrypt => return Err(KmsError::OperationFailed("injected decrypt failure".into())),
            Fault::WrongKey => return Ok(sha512(&[b"wrong"])[..32].to_vec()),
            Fault::KeyLen(n) => return Ok(vec![0x42; n as usize]),
            _ => {}
        }
        for (h, d) in self.table.borrow().iter() {
            if h == encrypted_dek {
                return Ok(match self.fault {
                    Fault::RightKeyPlus(n) => {
                        let mut k = d.clone();
                        k.extend(std::iter::repeat(0x17u8).take(n as usize));
                        k
                    }
                    Fault::RightKeyPrefix(n) => d[..(n as usize).min(d.len())].to_vec(),
                    _ => d.clone(),
                });
            }
        }
        Err(KmsError::InvalidKey("unknown wrapped key".into()))
    }
}

#[derive(Debug, Clone, Serialize, Deserialize)]
pub struct EnvCase {
    pub plain: Hex,
    pub wrapped_len: u16,
    /// full = every position x every bit; else a sampled subset
    pub full: bool,
}

fn contains_window(hay: &[u8], needle: &[u8], w: usize) -> bool {
    if needle.len() < w {
        return false;
    }
    needle.windows(w).any(|win| hay.windows(w).any(|h| h == win))
}

fn region(pos: usize, wl: usize) -> &'static str {
    if pos < 2 {
        "dek-len"
    } else if pos < 4 {
        "nonce-len"
    } else if pos < 4 + wl {
        "wrapped-dek"
    } else if pos < 4 + wl + 12 {
        "nonce"
    } else {
        "ciphertext+tag"
    }
}

fn check_env(ctx: &mut Ctx, c: &EnvCase) -> Res {
    let wl = c.wrapped_len as usize;
    let kms = TableKms::new(wl, Fault::None, c.plain.0.len() as u64 * 131 + wl as u64);
    ctx.eval();
    let blob = match no_unwind(|| EnvelopeEncryption::encrypt_seed(&kms, &c.plain.0)) {
        Ok(Ok(b)) => b,
        Ok(Err(e)) => return ctx.fail("encrypt-error", format!("encrypt_seed failed for plaintext {} bytes, wrapped {}: {:?}", c.plain.0.len(), wl, e)),
        Err(p) => return ctx.fail("encrypt-panic", p),
    };
    let dek = kms.last_dek().unwrap_or_default();
    // round trip
    match no_unwind(|| EnvelopeEncryption::decrypt_seed(&kms, &blob)) {
        Ok(Ok(p)) if p == c.plain.0 => {}
        Ok(Ok(p)) => return ctx.fail("roundtrip-different-plaintext", format!("got {} want {}", hex(&p), hex(&c.plain.0))),
        Ok(Err(e)) => {
            return ctx.fail(
                format!("roundtrip-error|{}", if blob.len() < 96 { "blob<96" } else { "blob>=96" }),
                format!("decrypt_seed(encrypt_seed(s)) failed: plaintext {} bytes, wrapped key {} bytes, blob {} bytes: {:?}", c.plain.0.len(), wl, blob.len(), e),
            )
        }
        Err(p) => return ctx.fail("decrypt-panic", p),
    }
    // leaks
    if contains_window(&blob, &c.plain.0, 16) {
        return ctx.fail("leak-seed", format!("a 16-byte window of the seed occurs in the blob {}", hex(&blob)));
    }
    if contains_window(&blob, &dek, 16) {
        return ctx.fail("leak-dek", format!("a 16-byte window of the data key occurs in the blob {}", hex(&blob)));
    }
    // tampering
    let mut tamper = |ctx: &mut Ctx, t: Vec<u8>, what: &str, pos: usize| -> Res {
        ctx.eval();
        match no_unwind(|| EnvelopeEncryption::decrypt_seed(&kms, &t)) {
            Ok(Err(_)) => Ok(()),
            Ok(Ok(p)) => ctx.fail(
                format!("tamper-accepted|{}|{}", what, region(pos, wl)),
                format!("{} at {} ({}): decrypt returned Ok({}) for a modified blob (plaintext {} bytes, wrapped {} bytes)", what, pos, region(pos, wl), hex(&p), c.plain.0.len(), wl),
            ),
            Err(p) => ctx.fail(format!("tamper-panic|{}|{}", what, region(pos, wl)), format!("{} at {}: {}", what, pos, p)),
        }
    };
    let n = blob.len();
    let step = if c.full { 1 } else { 7 };
    let mut pos = 0;
    while pos < n {
        // header fields, region borders and a stride elsewhere when sampling
        let near_border = pos < 6 || (pos + 2 >= 4 + wl && pos <= 4 + wl + 13) || pos + 18 >= n;
        if c.full || near_border || pos % step == 0 {
            for bit in 0..8 {
                let mut t = blob.clone();
                t[pos] ^= 1 << bit;
                tamper(ctx, t, "bit-flip", pos)?;
            }
            let mut t = blob.clone();
            t[pos] = t[pos].wrapping_add(1);
            tamper(ctx, t, "byte+1", pos)?;
            let mut t = blob.clone();
            t[pos] = t[pos] ^ (0x5b_u8.wrapping_add(pos as u8) | 1);
            tamper(ctx, t, "byte-random", pos)?;
            // header and length fields: extreme byte values (lengths that overflow narrow arithmetic)
            if pos < 6 {
                for v in [0x00u8, 0x01, 0x07, 0x7f, 0x80, 0xf0, 0xfe, 0xff] {
                    if blob[pos] != v {
                        let mut t = blob.clone();
                        t[pos] = v;
                        tamper(ctx, t, "byte-set", pos)?;
                    }
                }
                // both bytes of a 16-bit field at once
                if pos % 2 == 0 {
                    for (a, b) in [(0xffu8, 0xffu8), (0x00, 0x00), (0xf0, 0xff), (0xff, 0x7f), (0x00, 0x80)] {
                        let mut t = blob.clone();
                        t[pos] = a;
                        t[pos + 1] = b;
                        if t != blob {
                            tamper(ctx, t, "field-set", pos)?;
                        }
                    }
                }
            }
        }
        pos += 1;
    }
    for len in 0..n {
        if c.full || len < 8 || len + 40 >= n || len % step == 0 {
            tamper(ctx, blob[..len].to_vec(), "truncate", len)?;
        }
    }
    for k in 1..=16usize {
        let mut t = blob.clone();
        t.extend(std::iter::repeat(0xa5u8 ^ k as u8).take(k));
        tamper(ctx, t, "extend", n)?;
    }
    // provider faults
    for fault in [Fault::ErrDecrypt, Fault::WrongKey, Fault::KeyLen(0), Fault::KeyLen(16), Fault::KeyLen(31), Fault::KeyLen(33), Fault::KeyLen(64), Fault::RightKeyPlus(1), Fault::RightKeyPlus(16), Fault::RightKeyPlus(32), Fault::RightKeyPrefix(31), Fault::RightKeyPrefix(16), Fault::RightKeyPrefix(0)] {
        ctx.eval();
        let fk = TableKms { wrapped_len: wl, table: RefCell::new(kms.table.borrow().clone()), fault, salt: 0 };
        match no_unwind(|| EnvelopeEncryption::decrypt_seed(&fk, &blob)) {
            Ok(Err(_)) => {}
            Ok(Ok(p)) => return ctx.fail(format!("fault-accepted|{:?}", fault), format!("provider fault {:?}: decrypt returned Ok({})", fault, hex(&p))),
            Err(p) => return ctx.fail(format!("fault-panic|{:?}", fault), format!("provider fault {:?}: {}", fault, p)),
        }
    }
    ctx.eval();
    let fk = TableKms::new(wl, Fault::ErrEncrypt, 0);
    match no_unwind(|| EnvelopeEncryption::encrypt_seed(&fk, &c.plain.0)) {
        Ok(Err(_)) => {}
        Ok(Ok(_)) => return ctx.fail("fault-accepted|ErrEncrypt", "encrypt_seed returned Ok although the provider failed"),
        Err(p) => return ctx.fail("fault-panic|ErrEncrypt", p),
    }
    let cls = if wl < 32 { "wrapped<32" } else if wl > 255 { "wrapped>255" } else { "wrapped-32..255" };
    ctx.class(&format!("env:{}:{}", cls, if c.full { "full-enum" } else { "sampled" }));
    ctx.nontrivial(&(c.plain.0.len(), wl, c.full));
    Ok(())
}

/// sequences of decrypt calls on one thread over several blobs: state must not carry from one call to the next
#[derive(Debug, Clone, Serialize, Deserialize)]
pub struct SeqCase {
    /// (plaintext length 32..=64, wrapped-key length) per blob
    pub blobs: Vec<(u8, u16)>,
    /// (blob index, variant): 0 intact, 1 truncated by k, 2 extended by k, 3 provider error, 4 wrong key, 5 one byte changed at k,
    /// 6 right key + trailing bytes, 7 intact again
    pub ops: Vec<(u8, u8, u16)>,
}

fn check_seq(ctx: &mut Ctx, c: &SeqCase) -> Res {
    let mut made: Vec<(TableKms, Vec<u8>, Vec<u8>)> = vec![];
    for (i, (pl, wl)) in c.blobs.iter().enumerate() {
        let pl = (*pl).clamp(32, 64) as usize;
        let wl = (*wl).clamp(16, 1024) as usize;
        let plain: Vec<u8> = sha512(&[b"seq-plain", &[i as u8], &[pl as u8]])[..pl].to_vec();
        let kms = TableKms::new(wl, Fault::None, 1000 + i as u64);
        let blob = match no_unwind(|| EnvelopeEncryption::encrypt_seed(&kms, &plain)) {
            Ok(Ok(b)) => b,
            _ => return ctx.fail("encrypt-error", "encrypt_seed failed"),
        };
        made.push((kms, plain, blob));
    }
    if made.is_empty() {
        return Ok(());
    }
    let mut failed_before = false;
    for (n, (bi, variant, k)) in c.ops.iter().enumerate() {
        ctx.eval();
        let (kms, plain, blob) = &made[*bi as usize % made.len()];
        let k = *k as usize;
        let (cand, provider_fault, expect_ok): (Vec<u8>, Fault, bool) = match variant % 8 {
            0 | 7 => (blob.clone(), Fault::None, true),
            1 => (blob[..blob.len() - 1 - k % (blob.len() - 1)].to_vec(), Fault::None, false),
            2 => {
                let mut b = blob.clone();
                b.extend(std::iter::repeat(0x33u8).take(1 + k % 40));
                (b, Fault::None, false)
            }
            3 => (blob.clone(), Fault::ErrDecrypt, false),
            4 => (blob.clone(), Fault::WrongKey, false),
            5 => {
                let mut b = blob.clone();
                let p = k % b.len();
                b[p] ^= 0x40;
                (b, Fault::None, false)
            }
            _ => (blob.clone(), Fault::RightKeyPlus(1 + (k % 32) as u8), false),
        };
        let provider = TableKms { wrapped_len: kms.wrapped_len, table: RefCell::new(kms.table.borrow().clone()), fault: provider_fault, salt: 0 };
        let r = no_unwind(|| EnvelopeEncryption::decrypt_seed(&provider, &cand));
        let what = format!("call #{} (variant {}, blob {} of {} bytes, {} earlier failures in this sequence)", n, variant % 8, *bi as usize % made.len(), blob.len(), if failed_before { "with" } else { "no" });
        match (r, expect_ok) {
            (Ok(Ok(p)), true) if &p == plain => {}
            (Ok(Ok(p)), true) => return ctx.fail("sequence|roundtrip-different-plaintext", format!("{}: got {}", what, hex(&p))),
            (Ok(Err(e)), true) => return ctx.fail("sequence|intact-blob-rejected-after-other-calls", format!("{}: intact blob with the right provider was rejected: {:?}", what, e)),
            (Ok(Ok(p)), false) => return ctx.fail("sequence|tamper-or-fault-accepted-after-other-calls", format!("{}: returned Ok({})", what, hex(&p))),
            (Ok(Err(_)), false) => failed_before = true,
            (Err(p), _) => return ctx.fail("sequence|panic", format!("{}: {}", what, p)),
        }
    }
    ctx.class(&format!("env:sequence:blobs={}", made.len()));
    ctx.nontrivial(&(c.blobs.clone(), c.ops.clone()));
    Ok(())
}

fn seq_case() -> impl Strategy<Value = SeqCase> {
    (proptest::collection::vec((32u8..=64, prop_oneof![16u16..=40, 16u16..=300]), 1..=3), proptest::collection::vec((0u8..3, 0u8..8, any::<u16>()), 2..=14)).prop_map(|(blobs, ops)| SeqCase { blobs, ops })
}

fn env_case(full: bool) -> impl Strategy<Value = EnvCase> {
    let wl = prop_oneof![2 => 16u16..32, 3 => 32u16..=255, 2 => 256u16..=1024, 1 => prop::sample::select(vec![16u16, 31, 32, 33, 240, 254, 255, 256, 257, 496, 511, 752, 1008, 1023, 1024])];
    // the seed is opaque bytes: binary, or text such as the configuration's 64 hex characters, base64, digits
    let plain = prop_oneof![
        6 => bytes(32usize..=64),
        1 => "[0-9a-f]{64}".prop_map(|s| Hex(s.into_bytes())),
        1 => "[0-9A-F]{64}".prop_map(|s| Hex(s.into_bytes())),
        1 => "[0-9]{32,64}".prop_map(|s| Hex(s.into_bytes())),
        1 => "[A-Za-z0-9+/]{43}=".prop_map(|s| Hex(s.into_bytes())),
        1 => "[ -~]{32,64}".prop_map(|s| Hex(s.into_bytes())),
    ];
    (plain, wl).prop_map(move |(plain, wrapped_len)| EnvCase { plain, wrapped_len, full })
}

#[derive(Debug, Clone, Serialize, Deserialize)]
struct GridCase {
    wl: u16,
    pl: u8,
    salt: u8,
}

pub fn run(ctx: &mut Ctx) -> Vec<Violation> {
    // every second worker process runs with logging switched on at Trace (log arguments are only evaluated then);
    // records are formatted and dropped
    if ctx.shard % 2 == 1 {
        crate::srvlab::install_logger(log::LevelFilter::Trace);
        *crate::srvlab::LOGGER.keep.lock().unwrap() = false;
        ctx.class("logging-on-at-trace");
    }
    let mut out = vec![];
    let t = ctx.tier;
    out.extend(run_prop(ctx, "full-enum", t.pick(640, 4_000), 100, env_case(true), |ctx, c| {
        ctx.sample("env", 2, c);
        check_env(ctx, c)
    }));
    out.extend(run_prop(ctx, "sampled", t.pick(4_000, 40_000), 100, env_case(false), |ctx, c| check_env(ctx, c)));
    out.extend(run_prop(ctx, "sequences", t.pick(40_000, 400_000), 400, seq_case(), |ctx, c| {
        ctx.sample("sequences", 2, c);
        check_seq(ctx, c)
    }));
    if t == Tier::Thorough {
        // every wrapped length 16..=1024 x plaintext lengths {32,33,48,63,64}, full enumeration
        let pls = [32u8, 33, 48, 63, 64];
        let v = run_enum(ctx, "grid", 1009 * 5, |i| GridCase { wl: 16 + (i / 5) as u16, pl: pls[(i % 5) as usize], salt: (i % 251) as u8 }, |ctx, g| {
            let plain: Vec<u8> = (0..g.pl).map(|k| k.wrapping_mul(37).wrapping_add(g.salt)).collect();
            check_env(ctx, &EnvCase { plain: Hex(plain), wrapped_len: g.wl, full: true })
        });
        if v.is_empty() && ctx.shard == 0 {
            ctx.stats.exhaustive_spaces.push("every wrapped-key length 16..=1024 x plaintext length {32,33,48,63,64}: every bit of every blob byte, byte+1, every truncation, extensions 1..=16, all provider faults".into());
        }
        out.extend(v);
    }
    out
}

pub fn replay(ctx: &mut Ctx, sub: &str, case: &Value) -> Res {
    crate::srvlab::install_logger(log::LevelFilter::Trace);
    *crate::srvlab::LOGGER.keep.lock().unwrap() = false;
    match sub {
        "full-enum" | "sampled" => replay_case::<EnvCase, _>(ctx, case, |ctx, c| check_env(ctx, c)),
        "sequences" => replay_case::<SeqCase, _>(ctx, case, |ctx, c| check_seq(ctx, c)),
        "grid" => replay_case::<GridCase, _>(ctx, case, |ctx, g| {
            let plain: Vec<u8> = (0..g.pl).map(|k| k.wrapping_mul(37).wrapping_add(g.salt)).collect();
            check_env(ctx, &EnvCase { plain: Hex(plain), wrapped_len: g.wl, full: true })
        }),
        _ => Err(viol("bad-replay-file", format!("unknown sub {}", sub))),
    }
}
