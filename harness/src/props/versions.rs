//! C12 — IETF requests answered iff they name a supported version and this server.

use crate::engine::*;
use crate::gen::*;
use crate::refcodec::{self as rc, hex, Msg};
use crate::refcrypto::*;
use crate::refproto::*;
use crate::srvlab::*;
use serde::{Deserialize, Serialize};
use serde_json::Value;

const VALUES: [u32; 5] = [VER_DRAFT13, 0, 1, 0x8000_000b, 0x8000_000d];
const STRADDLE: [[u32; 2]; 3] = [[0x0c00_0007, 0x0080_0000], [0x000c_0007, 0x0007_8000], [0x0000_0c07, 0x0700_0080]];

#[derive(Debug, Clone, Serialize, Deserialize, PartialEq, Eq, Hash)]
pub enum Srv {
    Absent,
    Correct,
    /// correct value with one bit flipped
    BitFlip(u16),
    /// correct value truncated/extended to this many bytes
    Len(u8),
    /// SRV of a different seed
    OtherServer,
    /// a constant wrong 32-byte value
    Wrong,
}

#[derive(Debug, Clone, Serialize, Deserialize, PartialEq, Eq, Hash)]
pub struct VerReq {
    /// None = no VER tag at all
    pub vers: Option<Vec<u32>>,
    pub srv: Srv,
    /// 0 = the usual layout. 1 = the request also carries a (meaningless) 64-byte SIG field, which sorts in front of
    /// VER; 2 = a framed message with ZERO tags padded to the usual size (names no version, carries no nonce: never
    /// answered, whatever was received before it); 3 = a zero-tag message without padding
    #[serde(default)]
    pub shape: u8,
}

#[derive(Debug, Clone, Serialize, Deserialize)]
pub struct Chunk {
    pub reqs: Vec<VerReq>,
    /// which server identity the chunk runs against: 0 = the fixed seed 0x42.., k = a seed derived from k
    /// ("this server's" SRV must follow the server instance, also when several live in one process)
    #[serde(default)]
    pub seed_k: u8,
}

fn chunk_seed(k: u8) -> Vec<u8> {
    if k == 0 {
        vec![0x42; 32]
    } else {
        sha512(&[b"c12-seed", &[k]])[..32].to_vec()
    }
}

fn build(v: &VerReq, k: usize, server_srv: &[u8]) -> Vec<u8> {
    let nonce = sha512(&[b"c12", &(k as u32).to_le_bytes()])[..32].to_vec();
    if v.shape % 4 >= 2 {
        // num_tags = 0 followed by nothing but padding
        let payload = if v.shape % 4 == 2 { vec![0u8; 1012] } else { vec![0u8; 4] };
        let mut f = rc::MAGIC.to_vec();
        f.extend_from_slice(&(payload.len() as u32).to_le_bytes());
        f.extend_from_slice(&payload);
        return f;
    }
    let mut m = Msg::new();
    if v.shape % 4 == 1 {
        m.fields.push((rc::SIG, vec![0x51u8; 64]));
    }
    if let Some(list) = &v.vers {
        m.fields.push((rc::VER, list.iter().flat_map(|x| x.to_le_bytes()).collect()));
    }
    let srv: Option<Vec<u8>> = match &v.srv {
        Srv::Absent => None,
        Srv::Correct => Some(server_srv.to_vec()),
        Srv::BitFlip(b) => {
            let mut s = server_srv.to_vec();
            s[(*b as usize / 8) % 32] ^= 1 << (b % 8);
            Some(s)
        }
        Srv::Len(l) => {
            let mut s = server_srv.to_vec();
            s.resize(*l as usize, 0x77);
            Some(s)
        }
        Srv::OtherServer => Some(srv_value(&RefKey::from_seed(&[0x99; 32]).public())),
        Srv::Wrong => Some(vec![0x5a; 32]),
    };
    if let Some(s) = srv {
        m.fields.push((rc::SRV, s));
    }
    m.fields.push((rc::NONC, nonce));
    m.fields.push((rc::ZZZZ, vec![]));
    let pad = 1024 - 12 - m.encode().len();
    m.set(rc::ZZZZ, vec![0u8; pad]);
    m.encode_framed()
}

fn check_chunk(ctx: &mut Ctx, c: &Chunk) -> Res {
    let n = c.reqs.len();
    let mut lab = match Lab::new(LabCfg { seed: chunk_seed(c.seed_k), batch_size: 64, ..Default::default() }, n.max(1)) {
        Ok(l) => l,
        Err(e) => return ctx.fail("server-new-failed", e),
    };
    let pk = lab.pk.clone();
    let reqs: Vec<Vec<u8>> = c.reqs.iter().enumerate().map(|(k, v)| build(v, k, &lab.srv)).collect();
    let mut sends: Vec<(usize, Vec<u8>)> = reqs.iter().enumerate().map(|(k, b)| (k, b.clone())).collect();
    if c.seed_k % 3 == 1 {
        // an answerable draft-13 request whose reply cannot be sent (UDP source port 0) is queued in front of the rest
        let nonce = sha512(&[&b"c12-unsendable"[..], &[c.seed_k][..]])[..32].to_vec();
        sends.insert(0, (PORT0, build_request(Proto::Ietf, &nonce, 1024, &[VER_DRAFT13], None)));
    }
    let res = match lab.step(&sends, 0) {
        Ok(r) => r,
        Err(StepErr::Panic(p)) => return ctx.fail(format!("process-events-panic|{}", panic_site(&p)), p),
        Err(StepErr::Wedged(m)) => return ctx.fail("wedged", m),
    };
    for (k, v) in c.reqs.iter().enumerate() {
        ctx.eval();
        let replies = &res.replies[k];
        let zero_tags = v.shape % 4 >= 2;
        let list = if zero_tags { vec![] } else { v.vers.clone().unwrap_or_default() };
        let contains = list.contains(&VER_DRAFT13);
        let first4 = list.iter().take(4).any(|x| *x == VER_DRAFT13);
        let srv_ok = matches!(v.srv, Srv::Absent | Srv::Correct) || matches!(v.srv, Srv::Len(32));
        let desc = || if zero_tags { "a framed message with zero tags".to_string() } else { format!("VER {:x?} SRV {:?}{}", v.vers, v.srv, if v.shape % 4 == 1 { " (+ leading SIG field)" } else { "" }) };
        if replies.len() > 1 {
            return ctx.fail("more-than-one-reply", format!("{} replies to one request ({})", replies.len(), desc()));
        }
        if !replies.is_empty() && !(contains && srv_ok) {
            return ctx.fail(
                if !contains { "answered-without-supported-version" } else { "answered-for-another-server" },
                format!("request with {} was answered although {}", desc(), if !contains { "its version list does not contain draft-13" } else { "its SRV is not this server's" }),
            );
        }
        if first4 && srv_ok && replies.is_empty() {
            return ctx.fail("unanswered-although-supported", format!("request with {} (draft-13 among the first four, SRV fine) got no reply", desc()));
        }
        if let Some(r) = replies.first() {
            match verify_strict(Proto::Ietf, &reqs[k], r, &pk) {
                Ok(i) => {
                    if i.ver != Some(VER_DRAFT13) {
                        return ctx.fail("srep-ver", format!("SREP.VER = {:x?}", i.ver));
                    }
                }
                Err(e) => return ctx.fail(format!("reply-invalid|{}", e), format!("reply to {} fails strict verification: {} ({})", desc(), e, hex(&r[..r.len().min(32)]))),
            }
        }
        let pos = list.iter().position(|x| *x == VER_DRAFT13);
        ctx.class(&format!(
            "c12:{}:{}:{}",
            match pos {
                None => "no-draft13".to_string(),
                Some(p) if p < 4 => format!("draft13@{}", p),
                Some(_) => "draft13@4+".to_string(),
            },
            match v.srv {
                Srv::Absent => "srv-absent",
                Srv::Correct => "srv-correct",
                _ => "srv-wrong",
            },
            if replies.is_empty() { "silent" } else { "answered" }
        ));
        if (list.len() >= 2 && pos.map(|p| p >= 1).unwrap_or(false)) || !matches!(v.srv, Srv::Absent | Srv::Correct) {
            ctx.nontrivial(v);
        }
    }
    Ok(())
}

/// all VER lists of length 0..=max_len over VALUES, each x {Absent, Correct, Wrong}; plus VER absent; plus SRV corruptions
fn table(max_len: usize) -> Vec<VerReq> {
    let mut out = vec![];
    for srv in [Srv::Absent, Srv::Correct, Srv::Wrong] {
        out.push(VerReq { vers: None, srv: srv.clone(), shape: 0 });
        for len in 0..=max_len {
            let total = 5usize.pow(len as u32);
            for mut i in 0..total {
                let mut l = Vec::with_capacity(len);
                for _ in 0..len {
                    l.push(VALUES[i % 5]);
                    i /= 5;
                }
                out.push(VerReq { vers: Some(l), srv: srv.clone(), shape: 0 });
            }
        }
    }
    // version numbers none of which is draft-13 but whose little-endian bytes, laid end to end, contain 0c 00 00 80
    // across an entry boundary (at byte offsets 1, 2 and 3)
    for pair in STRADDLE {
        for srv in [Srv::Absent, Srv::Correct] {
            out.push(VerReq { vers: Some(pair.to_vec()), srv: srv.clone(), shape: 0 });
            out.push(VerReq { vers: Some(vec![1, pair[0], pair[1]]), srv: srv.clone(), shape: 0 });
            out.push(VerReq { vers: Some(vec![pair[0], pair[1], 0x8000_000b]), srv: srv.clone(), shape: 1 });
        }
    }
    for b in 0..256u16 {
        out.push(VerReq { vers: Some(vec![VER_DRAFT13]), srv: Srv::BitFlip(b), shape: (b % 2) as u8 });
    }
    for l in [0u8, 4, 28, 36, 64] {
        out.push(VerReq { vers: Some(vec![VER_DRAFT13]), srv: Srv::Len(l), shape: 0 });
    }
    out.push(VerReq { vers: Some(vec![VER_DRAFT13]), srv: Srv::OtherServer, shape: 0 });
    // the same decisions for requests that carry a leading SIG field (every list of length <= 3), and zero-tag messages
    // right after an answerable request
    for srv in [Srv::Absent, Srv::Correct, Srv::Wrong, Srv::OtherServer, Srv::Len(0), Srv::Len(36)] {
        for len in 0..=3usize {
            for mut i in 0..5usize.pow(len as u32) {
                let mut l = Vec::with_capacity(len);
                for _ in 0..len {
                    l.push(VALUES[i % 5]);
                    i /= 5;
                }
                out.push(VerReq { vers: Some(l), srv: srv.clone(), shape: 1 });
            }
        }
        out.push(VerReq { vers: Some(vec![VER_DRAFT13]), srv: Srv::Correct, shape: 0 });
        out.push(VerReq { vers: None, srv: Srv::Absent, shape: 2 });
        out.push(VerReq { vers: Some(vec![VER_DRAFT13]), srv: Srv::Absent, shape: 0 });
        out.push(VerReq { vers: None, srv: Srv::Absent, shape: 3 });
    }
    out
}

/// sequences in which a list extends, truncates or repeats the previous one (state carried between requests)
fn sequence() -> impl proptest::strategy::Strategy<Value = Chunk> {
    use proptest::prelude::*;
    let val = prop::sample::select(VALUES.iter().copied().chain(STRADDLE.iter().flatten().copied()).collect::<Vec<u32>>());
    let list = proptest::collection::vec(val.clone(), 0..=6);
    let srv = prop_oneof![4 => Just(Srv::Absent), 2 => Just(Srv::Correct), 1 => Just(Srv::Wrong), 1 => any::<u16>().prop_map(Srv::BitFlip), 1 => prop::sample::select(vec![0u8, 4, 28, 31, 33, 36, 64]).prop_map(Srv::Len)];
    // op: 0 fresh list, 1 previous + suffix, 2 prefix of previous, 3 previous repeated, 4 previous with draft-13 inserted
    let step = (0u8..5, list, proptest::collection::vec(val, 1..=3), any::<u8>(), srv, prop_oneof![6 => Just(0u8), 2 => Just(1u8), 1 => Just(2u8), 1 => Just(3u8)]);
    (proptest::collection::vec(step, 2..=24), prop_oneof![1 => Just(0u8), 2 => any::<u8>()]).prop_map(|(steps, seed_k)| {
        let mut reqs: Vec<VerReq> = vec![];
        let mut prev: Vec<u32> = vec![];
        for (op, fresh, suffix, cut, srv, shape) in steps {
            let mut l = match op {
                0 => fresh,
                1 => {
                    let mut p = prev.clone();
                    p.extend(suffix);
                    p
                }
                2 => prev[..(cut as usize % (prev.len() + 1))].to_vec(),
                3 => prev.clone(),
                _ => {
                    let mut p = prev.clone();
                    let at = cut as usize % (p.len() + 1);
                    p.insert(at, VER_DRAFT13);
                    p
                }
            };
            l.truncate(8);
            prev = l.clone();
            reqs.push(VerReq { vers: Some(l), srv, shape });
        }
        Chunk { reqs, seed_k }
    })
}

pub fn run(ctx: &mut Ctx) -> Vec<Violation> {
    install_logger(log::LevelFilter::Off);
    let max_len = 6; // the full table is cheap enough for both tiers
    let tab = table(max_len);
    let chunks: Vec<Chunk> = tab.chunks(48).enumerate().map(|(i, c)| Chunk { reqs: c.to_vec(), seed_k: (i % 7) as u8 }).collect();
    let v = run_enum(ctx, "table", chunks.len() as u64, |i| chunks[i as usize].clone(), |ctx, c| check_chunk(ctx, c));
    if v.is_empty() && ctx.shard == 0 {
        ctx.stats.exhaustive_spaces.push(format!(
            "every VER list of length 0..={} over {{draft-13, 0, 1, 0x8000000b, 0x8000000d}} and 'VER absent', each x SRV absent/correct/wrong ({} requests), plus all 256 single-bit SRV corruptions, SRV lengths {{0,4,28,36,64}} and another server's SRV",
            max_len,
            tab.len()
        ));
        ctx.sample("table", 3, &chunks[chunks.len() / 2].reqs.iter().take(3).collect::<Vec<_>>());
    }
    let mut out = v;
    out.extend(run_prop(ctx, "sequences", ctx.tier.pick(6_000, 60_000), 300, sequence(), |ctx, c| {
        ctx.sample("sequences", 2, &c.reqs.iter().take(4).collect::<Vec<_>>());
        check_chunk(ctx, c)
    }));
    out
}

pub fn replay(ctx: &mut Ctx, _sub: &str, case: &Value) -> Res {
    install_logger(log::LevelFilter::Off);
    replay_case::<Chunk, _>(ctx, case, |ctx, c| check_chunk(ctx, c))
}

#[allow(dead_code)]
fn unused(_: Hex) {}
