//! Registry of property checks.
use crate::engine::*;
use serde_json::Value;

pub mod client;
pub mod codec;
pub mod envelope;
pub mod identity;
pub mod merkle;
pub mod procs;
pub mod secrets;
pub mod stats;
pub mod versions;
pub mod server;
pub mod sign;

pub struct PropDef {
    pub id: &'static str,
    pub level: &'static str,
    /// how cases are generated and what makes one non-trivial
    pub rule: &'static str,
    pub assumptions: &'static [&'static str],
    /// number of worker processes
    pub shards: fn(Tier) -> u32,
    /// watchdog per worker, seconds
    pub timeout_s: fn(Tier) -> u64,
    pub run: fn(&mut Ctx) -> Vec<Violation>,
    pub replay: fn(&mut Ctx, &str, &Value) -> Res,
}

fn s16(_: Tier) -> u32 {
    16
}
fn t_std(t: Tier) -> u64 {
    t.pick(240, 3600)
}

pub fn all() -> Vec<PropDef> {
    vec![
        PropDef {
            id: "C01",
            level: "fault_enumeration",
            rule: "the real roughenough-client binary with a pinned key (hex or base64) runs against a UDP mock that returns forgeries of honest reference responses built for the client's actual request(s): fixed table of 12 components x 5 edit kinds + structural forgeries (PATH add/remove/swap, other index, re-signed by a different long-term key, whole other key, delegation window below/above, cross-context certificate, cross-protocol shapes, cross-request splices, replays from earlier processes, truncation/extension) x 2 versions x 2 key formats; thorough: every byte offset and ~675 truncation lengths; plus proptest plans (1..=64 requests per run, batch 1..=64, any index, midpoints epoch..9999). Oracle = lenient reference verifier on the delivered bytes: first non-authentic response k => exit != 0 and at most k time lines; all nonces ever seen pairwise distinct. Non-trivial = delivered response that still parses but is unauthentic; distinct by (version, key format, forgery kind, bytes). Later additions: client run without -z under zones with daylight saving (midpoints on fold instants), options -d/-o/-O, -k values that are no public key (nothing is authentic under them), forgeries signed as the other protocol would, neutral-element certificate signature, empty delegation windows, whole runs on one request's response",
            assumptions: &["lenient verifier (refproto.rs) is authentic-biased: anything arguably authentic imposes no obligation", "client timeouts / spawn failures are harness faults (exit 2), never violations", "an attacker cannot forge Ed25519 signatures (forgeries are limited to what the mock can compute with its own keys and the genuine online key it legitimately holds)"],
            shards: s16,
            timeout_s: t_std,
            run: client::run_c01,
            replay: client::replay_c01,
        },
        PropDef {
            id: "C03",
            level: "exploration",
            rule: "the real client binary runs against two honest peers: the reference responder (own keys, generated midpoints from the epoch to 9999-12-31) and the real in-process Server behind a relay that places the client's request at a chosen index of a real batch; grid version x key option (none/hex/base64) x peer x batch size x position (path depth 0..=6) plus proptest plans (1..=64 requests per run, output modes plain/-v/-j/default format). Oracle = client's requests are standard, exit 0, printed (secs, nanos) equal the signed MIDP converted from the protocol's unit (civil date compared independently for the default format), verified flag iff a key was given; only responses the strict verifier accepts count. Non-trivial = accepted response at index >= 1 or from the reference peer with a generated midpoint; distinct by plan. Later additions: online keys rotating per reply, other honest servers' VERS lists, midpoints that do not increase over a run, bounded delegation windows, replies from another source address than asked, options -d/-o/-O, zones with repeated/skipped hours",
            assumptions: &["reference responder output is asserted to pass the strict verifier before it counts", "real-server replies that fail strict verification are C02's business (case inconclusive here)"],
            shards: s16,
            timeout_s: t_std,
            run: client::run_c03,
            replay: client::replay_c03,
        },
        PropDef {
            id: "C05",
            level: "exploration",
            rule: "proptest API messages (subsets of the 18 tags, aligned values up to 64 KiB), bounded-exhaustive word strings over a 16-word alphabet, structured mutants of valid encodings; oracle = independent reference codec (accept iff, identical content, canonical re-encoding, framing). Non-trivial = accepted message with >= 3 fields (offset table >= 2 entries) or rejected input with count >= 1 and >= 8 bytes; distinct by byte string. Later additions: API call sequences, exact encoded sizes around 64 KiB and beyond, byte-granular lengths (word strings plus/minus 1..=3 bytes), logging on in every second worker process",
            assumptions: &["reference codec /verif/harness/src/refcodec.rs written from the protocol texts is correct", "zero-field messages with trailing bytes are accepted by the reference too (property restricts canonical re-encoding to non-empty messages)"],
            shards: s16,
            timeout_s: t_std,
            run: |c| codec::run(codec::Mode::C05, c),
            replay: |c, s, v| codec::replay(codec::Mode::C05, c, s, v),
        },
        PropDef {
            id: "C06",
            level: "exploration",
            rule: "same generators as C05 plus random strings 0..=65536 bytes, count/offset arithmetic mutants and nested CERT/DELE/SREP payloads (valid, random, truncated, three deep); oracle = no unwind from from_bytes, values concatenated == input after header, Display returns. Non-trivial = accepted message with an undecodable nested value, or rejected input with count >= 2; distinct by byte string. Later additions: exact-size messages around 64 KiB, short word strings and mutants with logging at Trace, deep nesting in a child process",
            assumptions: &["catch_unwind observes every panic (panic=unwind build)", "out-of-bounds reads would panic in safe Rust; the libFuzzer twin adds ASan"],
            shards: s16,
            timeout_s: t_std,
            run: |c| codec::run(codec::Mode::C06, c),
            replay: |c, s, v| codec::replay(codec::Mode::C06, c, s, v),
        },
        PropDef {
            id: "C04",
            level: "exploration",
            rule: "exhaustive: every leaf count 1..=255 x every position x both profiles (completeness, own verifier + independent sha2 climb with inferred node width); ordered size pairs on one reused tree vs fresh trees; binding negatives (other leaf, other index, element flipped/removed/added) on a grid and on proptest-generated leaf sets (empty, 1-byte, equal, up to 1500 bytes) and reuse histories of 2..=8 batches. Non-trivial = n >= 3 with an odd level (zero padding in play), a binding case, or a batch following a larger batch; distinct by (profile, leaves/sizes). Later additions: idle resets around 8/16-bit counter wrap points, six orders of asking for paths, partial path elements, leaves sharing a 64-byte prefix, logging switched on in every second worker process",
            assumptions: &["SHA-512 collision resistance (binding negatives)", "independent climb in refcrypto.rs (sha2) follows the protocol texts: leaf tweak 0x00, node tweak 0x01, left/right by index bit"],
            shards: s16,
            timeout_s: t_std,
            run: merkle::run,
            replay: merkle::replay,
        },
        PropDef {
            id: "C13",
            level: "exploration",
            rule: "proptest histories of 1..=32 messages per signer, each 0..=4096 bytes in 0..=16 chunks (incl. empty chunks) over generated/boundary seeds; oracle = ed25519-dalek one-shot signature == ring signature of the concatenation; verifier vs direct dalek verification on honest triples and on every single-bit corruption of signature (512) and key (256), message bits, wrong signature lengths, another key. Non-trivial = history with >= 2 messages of which one has >= 2 chunks, or any corrupted triple; distinct by content. Later additions: degenerate signatures under undecodable keys, S+L, several signer/verifier objects interleaved (multi-object), lives of 128..515 messages with large many-chunk messages around counter wrap points, logging on in every second worker process",
            assumptions: &["ed25519-dalek one-shot sign/verify and ring are correct RFC 8032 implementations (they are cross-checked against each other on every case)"],
            shards: s16,
            timeout_s: t_std,
            run: sign::run,
            replay: sign::replay,
        },
        PropDef {
            id: "C14",
            level: "fault_enumeration",
            rule: "proptest (plaintext 32..=64 bytes, wrapped-key length 16..=1024) blobs from an authenticating table KMS; per blob: round trip, 16-byte leak windows of seed and DEK, every bit of every byte (or a stride + all region borders when sampled), byte+1, pseudo-random byte, every truncation length, extensions 1..=16, provider faults (error on either call, wrong key, key lengths 0/16/31/33/64); oracle = Ok(seed) for the untouched blob and Err for everything else, never a panic. Non-trivial = every blob shape (all carry tamper cases in the length fields and wrapped key); distinct by (plaintext length, wrapped length, enumeration mode). Later additions: decrypt-call sequences, text-like plaintexts, extreme values in header and length fields, logging on in every second worker process",
            assumptions: &["the harness KMS authenticates every wrapped byte (as AWS/GCP KMS do); a provider that ignores trailing bytes of the wrapped key is outside the property", "AES-256-GCM forgery is infeasible"],
            shards: s16,
            timeout_s: t_std,
            run: envelope::run,
            replay: envelope::replay,
        },
        PropDef {
            id: "C02",
            level: "exploration",
            rule: "proptest scenarios: batch_size 1..=64, 1..=6 consecutive steps of 1..=130 datagrams (standard classic/IETF requests of 1024..=1500 bytes, with/without SRV, a few invalid ones) on one long-lived in-process Server, fault 0 and 1..=50; grid batch_size x burst size; oracle = strict reference verifier (own codec, sha2 Merkle climb with the protocol's node width, ring Ed25519) matched one-to-one per socket, batch reconstruction from identical SREP bytes (distinct INDX < m, PATH = ceil(log2 m) nodes), fault mode: verdict for every reply, no half-valid reply, failing share within 6 sigma of p over >= 2400 replies. Non-trivial = verified reply from a batch with m >= 2 (non-empty path); distinct by (protocol, m, index, step class, SREP). Later additions: wrong-nonce-length and every other datagram family in the mix, requests from UDP source port 0 (reply cannot be sent) and from well-known source ports, short status intervals with idling, reply count under faults, fault shares at batch sizes 1..=4, and a real-binary part with 4..16 workers signing concurrently",
            assumptions: &["loopback UDP preserves per-socket order and does not drop below the raised receive-buffer limits", "refproto.rs strict verifier encodes the Google and draft-13 texts (leaf = nonce / whole request packet, node width 64 / 32)", "online keys, Grease PRNG and kernel timing are not pinned; verdicts do not depend on them except the 6-sigma statistic (false-alarm probability ~2e-9 per run)"],
            shards: s16,
            timeout_s: t_std,
            run: |c| server::run(server::Which::C02, c),
            replay: |c, s, v| server::replay(server::Which::C02, c, s, v),
        },
        PropDef {
            id: "C07",
            level: "exploration",
            rule: "proptest scenarios of datagrams 0..=65507 bytes (standard requests, every aligned nonce length, truncated/extended by 1..=8 bytes, resized, field mutants: NONC removed/renamed, tag order, offsets, frame length +-k, magic, VER lists, SRV, header words/bits, junk, empty) in batches up to 70 at batch_size 1..=64, plus a grid of nonce lengths x protocol x batch depth, well-formed requests of every aligned length around both size limits, and codec-level crafted requests whose header words sit at buffer-size boundaries; oracle per socket after the sentinel: replies only attributable (protocol + nonce echo) to well-formed 1024..=1500-byte requests of that socket, and len(reply) <= len(request) under the worst-case pairing. Non-trivial = well-formed datagram within 8 bytes of a size limit, in-range non-request, or answered request with non-standard nonce; distinct by bytes. Later additions: tag-order grid (required tags + every pair of known tags, ascending and exchanged), frame-length and size grids, scenarios with fault injection (count/size accounting), source port 0 and well-known source ports",
            assumptions: &["classifier in refproto.rs is generous (only-if direction only): a server stricter than it is never flagged", "no-reply is asserted only after the sentinel's reply proved the datagram was consumed"],
            shards: s16,
            timeout_s: t_std,
            run: |c| server::run(server::Which::C07, c),
            replay: |c, s, v| server::replay(server::Which::C07, c, s, v),
        },
        PropDef {
            id: "C08",
            level: "exploration",
            rule: "proptest scenarios x log level (one level per worker process: Off, Error, Warn, Info, Debug, Trace with a capturing logger that formats every record) x fault 0/1..=50 x batch_size 1..=64 x client_stats; datagram families of C07 plus empty datagrams, 65507-byte datagrams, empty and oversized nonces, repeated datagrams; oracle = process_events never unwinds, the sentinel is answered (never wedged) and its reply passes the strict verifier (fault 0) or a valid sentinel reply arrives within 40 attempts (faults on). Non-trivial = scenario with a near-valid mutant at level >= Debug; distinct by (level, datagrams). Later additions: Header/Crafted/TagOrder families, source port 0, well-known source ports",
            assumptions: &["the harness runs process_events on its (named) main thread; a panic counts only when it unwinds out of process_events", "socket-level errors (ICMP, ENOBUFS) are not injected"],
            shards: |_| 18,
            timeout_s: t_std,
            run: |c| server::run(server::Which::C08, c),
            replay: |c, s, v| server::replay(server::Which::C08, c, s, v),
        },
        PropDef {
            id: "C09",
            level: "exploration",
            rule: "proptest histories: 2..=48 client sockets, 1..=4 steps of 1..=130 sends (standard classic / standard IETF / clearly invalid datagrams; several requests per socket; nonces shared between sockets from a 6-nonce pool) at batch_size 1..=64; oracle per socket and step: #standard <= #replies <= #answerable, one-to-one matching of replies to the socket's own requests under the strict verifier in the request's protocol, every standard request matched, exactly one sentinel reply. Non-trivial = step mixing classic and IETF across >= 2 sockets, or burst > batch_size; distinct by (batch_size, burst, sends). Later additions: IPv6 loopback, source port 0, client sockets on well-known source ports, pending health connections (3 or 70) while a step's datagrams arrive, short status intervals with idling",
            assumptions: &["requests that are well-formed but non-standard are never generated here, so 'must be answered' is only asserted where every reading of the protocol agrees", "loopback does not drop (receive buffers raised)"],
            shards: s16,
            timeout_s: t_std,
            run: |c| server::run(server::Which::C09, c),
            replay: |c, s, v| server::replay(server::Which::C09, c, s, v),
        },
        PropDef {
            id: "C10",
            level: "exploration",
            rule: "proptest seeds (arbitrary, all-zero, all-0xff, RFC 8032 vectors, printable) x 1..=6 restarts x make_cert sequences of 1..=8 in generated protocol order (library), and 1..=3 in-process server restarts serving generated traffic of both protocols; oracle = ring-derived public key, sha2 SRV, Display, CERT shape {SIG, DELE{PUBK,MINT,MAXT}}, ring verification under the protocol's delegation context and NON-verification under the other's, MINT <= MIDP <= MAXT, delegated key = online key. Non-trivial = >= 2 restarts with certificates of both protocols; distinct by seed. Later additions: same online key certified for both protocols, midpoints signed up to 600 s after issue, in-process and real servers under far time zones, unsendable replies before the examined traffic",
            assumptions: &["ring's Ed25519 key derivation and verification are correct RFC 8032", "worker threads of the real binary construct their Server through the same code path (covered again at process level by C15/C18)"],
            shards: s16,
            timeout_s: t_std,
            run: identity::run_c10,
            replay: identity::replay_c10,
        },
        PropDef {
            id: "C11",
            level: "exploration",
            rule: "proptest clock values (secs 0..=2^34 and boundary dates up to 9999-12-31, nanos incl. 0, 1, 999, 1000, 999999, 999999999) x both versions through OnlineKey::make_srep, decoded with the reference codec: 0 <= clock - MIDP < one unit (microsecond / second), RADI = 5 s in that unit, signature valid; live: replies of in-process servers (young and aged > 1 s, incl. byte-identical batches repeated after > 1 s) bracketed by the harness clock with 250 ms slack; real binary under non-UTC time zones; real binary under bursts from 16..64 concurrent clients with microsecond midpoints inside [request sent, reply received] (2 ms tolerance, clock-step guard). Non-trivial = pure case with nanos != 0, or live reply from a server older than 1 s; distinct by (secs, nanos, version) / SREP. Later additions: clock sequences on one key, fault-valid-time (replies that verify under fault injection must tell the time), clock-step-real-binary (server under an LD_PRELOAD clock shim, offsets stepped while it runs)",
            assumptions: &["'expressed in whole units' is read as truncation: the largest whole unit not exceeding the clock reading (a midpoint later than the reading it expresses is flagged)", "CLOCK_REALTIME is not stepped by more than 250 ms during a live case"],
            shards: s16,
            timeout_s: t_std,
            run: identity::run_c11,
            replay: identity::replay_c11,
        },
        PropDef {
            id: "C12",
            level: "exploration",
            rule: "exhaustive table: every VER list of length 0..=6 over {draft-13, 0, 1, 0x8000000b, 0x8000000d} and 'VER absent', each x SRV absent/correct/wrong; for [draft-13]: all 256 single-bit SRV corruptions, SRV lengths {0,4,28,36,64}, another server's SRV; requests otherwise standard, 48 per batch, one per socket; plus proptest sequences of 2..=24 requests on one worker in which each list extends / truncates / repeats the previous one (state carried between requests); oracle = truth table of the property + strict verification of every reply (SREP.VER = draft-13, sorted VERS containing it). Non-trivial = list of length >= 2 with draft-13 at position >= 2, or any SRV corruption; distinct by (list, SRV). Later additions: a server identity per chunk, sequences of related lists, leading-SIG and zero-tag shapes, version numbers whose bytes spell draft-13 across an entry boundary, an unsendable request in front of every third chunk",
            assumptions: &["draft-13 at list position 5 or 6 may be answered or not (if answered the reply must verify)"],
            shards: s16,
            timeout_s: t_std,
            run: versions::run,
            replay: versions::replay,
        },
        PropDef {
            id: "C15",
            level: "exploration",
            rule: "the real roughenough-server binary is started from generated configurations: the repository's example.cfg (ports rewritten), a pairwise-covering set over {workers>1, health port, client_stats, file/ENV} with batch_size {1,2,63,64}, fault {0,1,50}, status_interval {1,10,600}, defaults left unwritten, an all-decimal-digit seed, then proptest draws over num_workers 1..=16 x the same options; oracle within 10 s: N distinct worker-i threads in /proc, 64*N requests from distinct sockets each answered exactly once (strictly verified when fault = 0), exactly N distinct delegated keys, 2*N health connections that are reset or closed unread, a burst of 2*N+1 simultaneous ones, then 3*N sequential health connections each reading the exact HTTP 200 text then EOF while UDP keeps being answered, workers still alive after 1 s, no panic text. Non-trivial = configuration with >= 2 workers, a health port or client_stats; distinct by configuration tuple. Later additions: protocol-mixed waves, one-client bursts with non-requests (free-running and stopped/continued, with health connections queued behind them), reset/unread/silent/half-sent/70-at-once health clients, health endurance under a lowered descriptor limit, health port = UDP port, drops at the server socket although the burst fits a default receive queue are violations",
            assumptions: &["ports are leased exclusively (bound once without SO_REUSE*, lock file); a lost port race is exit 2", "SO_REUSEPORT hashing spreads 64*N distinct source ports over all N workers (miss probability < 1e-12)"],
            shards: s16,
            timeout_s: |t| t.pick(400, 3600),
            run: procs::run_c15,
            replay: procs::replay_c15,
        },
        PropDef {
            id: "C16",
            level: "exploration",
            rule: "cfgprobe process (the product's make_config + is_valid_config) on configurations written as a YAML file or as ROUGHENOUGH_<KEY> environment variables: boundary grid (min-1, min, typical, max, max+1, 255, 256, 300, 65535, 65536, 70000, -1, -200, 2^31, 2^32+k) for port, batch_size, fault_percentage, num_workers, health_check_port; status_interval within 1..=65535; client_stats spellings; seeds of length 62/63/64/65/66 and non-hex; missing required keys; unknown key; every probe also with client_stats on; plus proptest integers; behavioural twin: a server built in-process from the loaded file/ENV configuration must show the written fault_percentage (failing share within 6 sigma over 2400 replies) and batch_size (largest batch under 130-request bursts); oracle = model of the documentation: in range => accepted with exactly the written value, otherwise refused (error, invalid or panic), never accepted with a different value. Non-trivial = value outside the type width of the field it lands in (wrap candidate) or negative; distinct by probe. Later additions: behavioural twins (fault share, batch size, health port incl. equal to the UDP port and occupied by another program), null/empty values, file probes padded with ~5 KiB of comments",
            assumptions: &["ranges come from README and ServerConfig rustdoc as quoted in the property; values the documents do not classify (health port 0, status_interval 0 or > 65535) are not generated", "environment variable names are ROUGHENOUGH_ + upper-cased key as in the README table"],
            shards: s16,
            timeout_s: t_std,
            run: procs::run_c16,
            replay: procs::replay_c16,
        },
        PropDef {
            id: "C17",
            level: "exploration",
            rule: "bounded-exhaustive histories of the 8 recording operations x 4 addresses (two v4, one v6, one IPv4-mapped v6) x limits 1..=3 up to length 4 (quick) / 5 (thorough); random histories up to 10,000 ops with byte counts {0,1,7,1500}; splits across 1..=4 worker recorders with generated snapshot points merged by a real Reporter; traffic mixes served by an in-process Server with client_stats off/on; oracle = exactly-one-counter step invariant, tracked addresses <= limit, Aggregated == PerClient totals while no overflow, merged per-address sums == sums of recorded events, recorded totals == datagrams and replies seen on the sockets. Non-trivial = history that overflowed, split with >= 2 workers and >= 2 snapshots, or a traffic case; distinct by content. Later additions: clears, CSV decode, traffic with health checks, faults, failed sends (source port 0), idling across statistics timer periods, 300..5000 client addresses in one period with queue capacity 2/4",
            assumptions: &["hooks: PerClientStats::verif_with_limit, Server::verif_stats, Reporter::verif_client_stats (feature verif)", "the snapshot procedure replicated in the split check is the one in Server::send_client_stats (iter -> force_push -> clear)"],
            shards: s16,
            timeout_s: t_std,
            run: stats::run,
            replay: stats::replay,
        },
        PropDef {
            id: "C18",
            level: "exploration",
            rule: "real multi-worker server (num_workers in {1,2,4,8,16}, one value per worker process of the check) under seeded rounds of 1..=64 concurrent closed-loop client threads (classic / IETF / per-client / per-request mix, 20..=300 requests each, think time 0..=2 ms, nonces shared across clients, client_stats off/on, batch_size {1,2,8,64}); oracle per request: exactly one reply, strictly verified for the outstanding request under the single long-term key, no stray datagram; microsecond midpoints inside [request sent, reply received] on the shared host clock (2 ms tolerance, >= 3 outliers, clock-step guard); all worker threads alive and no panic text after every round; an unanswered request counts only when the kernel reports zero drops. Non-trivial = round with >= 2 workers, >= 2 clients and replies from >= 2 distinct delegated keys (the kernel really spread the load); distinct by round plan. Schedules are sampled, not controlled. Later additions: full-house rounds, retransmitting clients, stop/continue of the server mid-round, unanswerable noise, midpoint inside [sent, received], drops although everything outstanding fits a default receive queue are violations",
            assumptions: &["OS scheduling and SO_REUSEPORT distribution are sampled (seeded plans, many rounds), not enumerated", "closed loop keeps <= 64 datagrams in flight, below the receive buffer"],
            shards: |t| t.pick(10, 15),
            timeout_s: |t| t.pick(400, 3600),
            run: procs::run_c18,
            replay: procs::replay_c18,
        },
        PropDef {
            id: "C19",
            level: "exploration",
            rule: "real server (workers {1,4,16}, client_stats off/on) receives SIGINT or SIGTERM after a swept delay (0..=300 ms, around 100 ms and 1 s; idle periods up to 12 s since start-up or since the last request) while idle, under k closed-loop clients, or under an open-loop flood (valid / invalid / mixed) that keeps the receive queue non-empty; fixed grid + proptest plans; oracle: exit status 0 within 5 s, no panic text, every reply received before exit strictly valid; if the deadline passes the load is stopped to tell 'wedged by load' from 'never exits'. Non-trivial = signal delivered while requests were in flight (flood, or a reply within 5 ms of the signal); distinct by (workers, stats, signal, load, delay bucket). Later additions: seven flood kinds incl. expensive-to-reject and unsendable-reply floods with host-wide flood slots, signals right after the first response, inherited ignored signals (nohup / background job), second signal within 100 ms, descriptor limit reached with health connections pending",
            assumptions: &["signal delivery instants are sampled by sweeping the delay; the exact interleaving is not controlled", "5 s is >= 4x the designed worst case (100 ms poll + 1 s reporter sleep)"],
            shards: |_| 6,
            timeout_s: |t| t.pick(400, 3600),
            run: procs::run_c19,
            replay: procs::replay_c19,
        },
        PropDef {
            id: "C20",
            level: "exploration",
            rule: "proptest seeds (incl. printable ASCII) x log level (one per worker process, all six levels) x request mixes (valid, invalid, fault-injected); needles = seed, SHA-512(seed) halves, clamped scalar, each raw / hex lower+upper / base64 std+url with and without padding, every 16-byte raw and 24-char encoded window; haystack = every emitted datagram, every formatted log record, the announced public key; positive control: sentinel nonce prefix found in the Debug log. Real-binary part: stdout+stderr of roughenough-server for file/ENV configurations incl. invalid ones. Non-trivial = run at level >= Debug with valid and invalid datagrams, or a real-binary run; distinct by (seed, level, source). Later additions: structured seeds, complete spellings as needles in text output, 28 configuration variants incl. digit-only seeds, restart on the same persistence directory with another seed, file source with ROUGHENOUGH_* noise in the environment, short status intervals with idling",
            assumptions: &["a 16-byte window colliding by chance has probability ~2^-128 per position"],
            shards: |_| 18,
            timeout_s: t_std,
            run: secrets::run,
            replay: secrets::replay,
        },
    ]
}

pub fn find(id: &str) -> Option<PropDef> {
    all().into_iter().find(|p| p.id == id)
}
