//! Registry of property checks.
use crate::engine::*;
use serde_json::Value;

pub mod codec;

pub struct PropDef {
    pub id: &'static str,
    pub level: &'static str,
    /// how cases are generated and what makes one non-trivial
    pub rule: &'static str,
    pub assumptions: &'static [&'static str],
    /// number of worker processes
    pub shards: fn(Tier) -> u32,
    /// watchdog per worker, seconds
    pub timeout_s: fn(Tier) -> u64,
    pub run: fn(&mut Ctx) -> Vec<Violation>,
    pub replay: fn(&mut Ctx, &str, &Value) -> Res,
}

fn s16(_: Tier) -> u32 {
    16
}
fn t_std(t: Tier) -> u64 {
    t.pick(240, 3600)
}

pub fn all() -> Vec<PropDef> {
    vec![
        PropDef {
            id: "C05",
            level: "exploration",
            rule: "proptest API messages (subsets of the 18 tags, aligned values up to 64 KiB), bounded-exhaustive word strings over a 16-word alphabet, structured mutants of valid encodings; oracle = independent reference codec (accept iff, identical content, canonical re-encoding, framing). Non-trivial = accepted message with >= 3 fields (offset table >= 2 entries) or rejected input with count >= 1 and >= 8 bytes; distinct by byte string",
            assumptions: &["reference codec /verif/harness/src/refcodec.rs written from the protocol texts is correct", "zero-field messages with trailing bytes are accepted by the reference too (property restricts canonical re-encoding to non-empty messages)"],
            shards: s16,
            timeout_s: t_std,
            run: |c| codec::run(codec::Mode::C05, c),
            replay: |c, s, v| codec::replay(codec::Mode::C05, c, s, v),
        },
        PropDef {
            id: "C06",
            level: "exploration",
            rule: "same generators as C05 plus random strings 0..=65536 bytes, count/offset arithmetic mutants and nested CERT/DELE/SREP payloads (valid, random, truncated, three deep); oracle = no unwind from from_bytes, values concatenated == input after header, Display returns. Non-trivial = accepted message with an undecodable nested value, or rejected input with count >= 2; distinct by byte string",
            assumptions: &["catch_unwind observes every panic (panic=unwind build)", "out-of-bounds reads would panic in safe Rust; the libFuzzer twin adds ASan"],
            shards: s16,
            timeout_s: t_std,
            run: |c| codec::run(codec::Mode::C06, c),
            replay: |c, s, v| codec::replay(codec::Mode::C06, c, s, v),
        },
    ]
}

pub fn find(id: &str) -> Option<PropDef> {
    all().into_iter().find(|p| p.id == id)
}
