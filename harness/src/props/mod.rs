//! Registry of property checks.
use crate::engine::*;
use serde_json::Value;

pub mod codec;
pub mod envelope;
pub mod merkle;
pub mod sign;

pub struct PropDef {
    pub id: &'static str,
    pub level: &'static str,
    /// how cases are generated and what makes one non-trivial
    pub rule: &'static str,
    pub assumptions: &'static [&'static str],
    /// number of worker processes
    pub shards: fn(Tier) -> u32,
    /// watchdog per worker, seconds
    pub timeout_s: fn(Tier) -> u64,
    pub run: fn(&mut Ctx) -> Vec<Violation>,
    pub replay: fn(&mut Ctx, &str, &Value) -> Res,
}

fn s16(_: Tier) -> u32 {
    16
}
fn t_std(t: Tier) -> u64 {
    t.pick(240, 3600)
}

pub fn all() -> Vec<PropDef> {
    vec![
        PropDef {
            id: "C05",
            level: "exploration",
            rule: "proptest API messages (subsets of the 18 tags, aligned values up to 64 KiB), bounded-exhaustive word strings over a 16-word alphabet, structured mutants of valid encodings; oracle = independent reference codec (accept iff, identical content, canonical re-encoding, framing). Non-trivial = accepted message with >= 3 fields (offset table >= 2 entries) or rejected input with count >= 1 and >= 8 bytes; distinct by byte string",
            assumptions: &["reference codec /verif/harness/src/refcodec.rs written from the protocol texts is correct", "zero-field messages with trailing bytes are accepted by the reference too (property restricts canonical re-encoding to non-empty messages)"],
            shards: s16,
            timeout_s: t_std,
            run: |c| codec::run(codec::Mode::C05, c),
            replay: |c, s, v| codec::replay(codec::Mode::C05, c, s, v),
        },
        PropDef {
            id: "C06",
            level: "exploration",
            rule: "same generators as C05 plus random strings 0..=65536 bytes, count/offset arithmetic mutants and nested CERT/DELE/SREP payloads (valid, random, truncated, three deep); oracle = no unwind from from_bytes, values concatenated == input after header, Display returns. Non-trivial = accepted message with an undecodable nested value, or rejected input with count >= 2; distinct by byte string",
            assumptions: &["catch_unwind observes every panic (panic=unwind build)", "out-of-bounds reads would panic in safe Rust; the libFuzzer twin adds ASan"],
            shards: s16,
            timeout_s: t_std,
            run: |c| codec::run(codec::Mode::C06, c),
            replay: |c, s, v| codec::replay(codec::Mode::C06, c, s, v),
        },
        PropDef {
            id: "C04",
            level: "exploration",
            rule: "exhaustive: every leaf count 1..=255 x every position x both profiles (completeness, own verifier + independent sha2 climb with inferred node width); ordered size pairs on one reused tree vs fresh trees; binding negatives (other leaf, other index, element flipped/removed/added) on a grid and on proptest-generated leaf sets (empty, 1-byte, equal, up to 1500 bytes) and reuse histories of 2..=8 batches. Non-trivial = n >= 3 with an odd level (zero padding in play), a binding case, or a batch following a larger batch; distinct by (profile, leaves/sizes)",
            assumptions: &["SHA-512 collision resistance (binding negatives)", "independent climb in refcrypto.rs (sha2) follows the protocol texts: leaf tweak 0x00, node tweak 0x01, left/right by index bit"],
            shards: s16,
            timeout_s: t_std,
            run: merkle::run,
            replay: merkle::replay,
        },
        PropDef {
            id: "C13",
            level: "exploration",
            rule: "proptest histories of 1..=32 messages per signer, each 0..=4096 bytes in 0..=16 chunks (incl. empty chunks) over generated/boundary seeds; oracle = ed25519-dalek one-shot signature == ring signature of the concatenation; verifier vs direct dalek verification on honest triples and on every single-bit corruption of signature (512) and key (256), message bits, wrong signature lengths, another key. Non-trivial = history with >= 2 messages of which one has >= 2 chunks, or any corrupted triple; distinct by content",
            assumptions: &["ed25519-dalek one-shot sign/verify and ring are correct RFC 8032 implementations (they are cross-checked against each other on every case)"],
            shards: s16,
            timeout_s: t_std,
            run: sign::run,
            replay: sign::replay,
        },
        PropDef {
            id: "C14",
            level: "fault_enumeration",
            rule: "proptest (plaintext 32..=64 bytes, wrapped-key length 16..=1024) blobs from an authenticating table KMS; per blob: round trip, 16-byte leak windows of seed and DEK, every bit of every byte (or a stride + all region borders when sampled), byte+1, pseudo-random byte, every truncation length, extensions 1..=16, provider faults (error on either call, wrong key, key lengths 0/16/31/33/64); oracle = Ok(seed) for the untouched blob and Err for everything else, never a panic. Non-trivial = every blob shape (all carry tamper cases in the length fields and wrapped key); distinct by (plaintext length, wrapped length, enumeration mode)",
            assumptions: &["the harness KMS authenticates every wrapped byte (as AWS/GCP KMS do); a provider that ignores trailing bytes of the wrapped key is outside the property", "AES-256-GCM forgery is infeasible"],
            shards: s16,
            timeout_s: t_std,
            run: envelope::run,
            replay: envelope::replay,
        },
    ]
}

pub fn find(id: &str) -> Option<PropDef> {
    all().into_iter().find(|p| p.id == id)
}
