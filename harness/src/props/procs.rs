//! Process-level checks against the real binaries: C16 (cfgprobe), C15, C18, C19 and the real-binary
//! part of C20.

use crate::engine::*;
use crate::gen::*;
use crate::proclab::*;
use crate::refcodec::{self as rc, hex, Msg};
use crate::refcrypto::*;
use crate::refproto::*;
use proptest::prelude::*;
use serde::{Deserialize, Serialize};
use serde_json::Value;
use std::collections::{BTreeMap, HashSet};
use std::io::{Read, Write};
use std::net::{TcpStream, UdpSocket};
use std::process::{Command, Stdio};
use std::sync::atomic::{AtomicBool, AtomicU64, Ordering};
use std::sync::Arc;
use std::time::{Duration, Instant};

pub const GOOD_SEED: &str = "a32049da0ffde0ded92ce10a0230d35fe615ec8461c14986baa63fe3b3bac3db";
const CFGPROBE: &str = "/verif/target/debug/cfgprobe";

// =========================================================================================== C16

#[derive(Debug, Clone, Serialize, Deserialize, PartialEq, Eq, Hash)]
pub struct Probe {
    pub via_env: bool,
    /// the configuration as written: (key, value) pairs; `None` value = key omitted
    pub settings: Vec<(String, String)>,
    /// create the persistence directory named by the settings
    pub make_dir: bool,
}

#[derive(Debug, Clone, PartialEq)]
enum Expect {
    Refuse(String),
    Accept(BTreeMap<String, Value>),
}

/// The documentation's model (README table + ServerConfig rustdoc): ranges and required keys.
fn model(p: &Probe) -> Expect {
    use serde_json::json;
    let mut eff: BTreeMap<String, Value> = BTreeMap::new();
    eff.insert("batch_size".into(), json!(64));
    eff.insert("status_interval".into(), json!(600));
    eff.insert("health_check_port".into(), Value::Null);
    eff.insert("client_stats".into(), json!(false));
    eff.insert("fault_percentage".into(), json!(0));
    let mut have = HashSet::new();
    let known = ["interface", "port", "seed", "batch_size", "status_interval", "health_check_port", "client_stats", "fault_percentage", "num_workers", "persistence_directory", "kms_protection"];
    let mut pdir = None;
    for (k, v) in &p.settings {
        if !known.contains(&k.as_str()) {
            return Expect::Refuse(format!("unknown key {}", k));
        }
        have.insert(k.as_str());
        let int = v.parse::<i128>();
        let mut ranged = |lo: i128, hi: i128| -> Result<Value, Expect> {
            match &int {
                Ok(n) if *n >= lo && *n <= hi => Ok(json!(*n as u64)),
                _ => Err(Expect::Refuse(format!("{}={} outside {}..={}", k, v, lo, hi))),
            }
        };
        let r = match k.as_str() {
            "port" => ranged(1, 65_535),
            "batch_size" => ranged(1, 64),
            "fault_percentage" => ranged(0, 50),
            "num_workers" => ranged(1, u64::MAX as i128),
            "health_check_port" => ranged(1, 65_535),
            "status_interval" => ranged(1, 65_535),
            "client_stats" => Ok(json!(matches!(v.to_ascii_lowercase().as_str(), "on" | "yes"))),
            "seed" => {
                if v.len() == 64 && v.bytes().all(|c| c.is_ascii_hexdigit()) {
                    Ok(json!(v.to_ascii_lowercase()))
                } else {
                    Err(Expect::Refuse(format!("seed {:?} is not 64 hex characters", v)))
                }
            }
            "persistence_directory" => {
                pdir = Some(v.clone());
                Ok(json!(v))
            }
            _ => Ok(json!(v)),
        };
        match r {
            Ok(val) => {
                eff.insert(k.clone(), val);
            }
            Err(e) => return e,
        }
    }
    for req in ["interface", "port", "seed"] {
        if !have.contains(req) {
            return Expect::Refuse(format!("required key {} missing", req));
        }
    }
    if eff.get("client_stats") == Some(&json!(true)) && (pdir.is_none() || !p.make_dir) {
        return Expect::Refuse("client_stats on without an existing persistence directory".into());
    }
    Expect::Accept(eff)
}

fn value_class(k: &str, v: &str) -> &'static str {
    match v.parse::<i128>() {
        Ok(n) => {
            let width: i128 = match k {
                "port" | "health_check_port" | "status_interval" => 65_535,
                "batch_size" | "fault_percentage" => 255,
                _ => u64::MAX as i128,
            };
            if n < 0 {
                "negative"
            } else if n > width {
                "beyond-type-width"
            } else {
                "within-type-width"
            }
        }
        Err(_) => "non-numeric",
    }
}

fn run_probe(p: &Probe) -> Result<(i32, Value, String), String> {
    run_probe_layout(p, 0)
}

/// layout of the configuration FILE: 0 = one line per setting; 1 = the same with about 5 KiB of comment lines and blank
/// lines between the third setting and the rest; 2 = CRLF line ends and trailing spaces... no: 2 = a 5 KiB comment block
/// in front of everything. Comments and blank lines are not settings: the result must not depend on them.
fn run_probe_layout(p: &Probe, layout: u8) -> Result<(i32, Value, String), String> {
    let dir = scratch_dir("cfg");
    let mut settings = p.settings.clone();
    for (k, v) in settings.iter_mut() {
        if k == "persistence_directory" && v == "@DIR@" {
            *v = dir.join("stats").display().to_string();
        }
    }
    if p.make_dir {
        let _ = std::fs::create_dir_all(dir.join("stats"));
    }
    let mut cmd = Command::new(CFGPROBE);
    cmd.env_clear().env("RUST_BACKTRACE", "0");
    if p.via_env {
        for (k, v) in &settings {
            cmd.env(format!("ROUGHENOUGH_{}", k.to_uppercase()), v);
        }
        cmd.arg("ENV");
    } else {
        let path = dir.join("probe.cfg");
        let comment: String = (0..70).map(|i| format!("# {:03} this line is a comment and does not set anything ------------------------\n\n", i)).collect();
        let mut body = String::new();
        if layout == 2 {
            body.push_str(&comment);
        }
        for (i, (k, v)) in settings.iter().enumerate() {
            if layout == 1 && i == 3.min(settings.len() - 1) {
                body.push_str(&comment);
            }
            body.push_str(&format!("{}: {}\n", k, v));
        }
        std::fs::write(&path, body).map_err(|e| e.to_string())?;
        cmd.arg(&path);
    }
    let out = cmd.stdin(Stdio::null()).output().map_err(|e| format!("spawn cfgprobe: {}", e))?;
    let _ = std::fs::remove_dir_all(&dir);
    let code = out.status.code().unwrap_or(-1);
    let stdout = String::from_utf8_lossy(&out.stdout).to_string();
    let json: Value = stdout.lines().last().and_then(|l| serde_json::from_str(l).ok()).unwrap_or(Value::Null);
    Ok((code, json, String::from_utf8_lossy(&out.stderr).to_string()))
}

/// C16 asks: effective == written, or start refused (out-of-range must be refused).
/// C15 asks (cheap twin of its process-level check): every documented in-range configuration is accepted.
#[derive(Clone, Copy, PartialEq, Eq)]
pub enum ProbeMode {
    C16,
    C15,
}

fn check_probe(ctx: &mut Ctx, p: &Probe) -> Res {
    check_probe_mode(ctx, p, ProbeMode::C16)
}

fn check_probe_mode(ctx: &mut Ctx, p: &Probe, mode: ProbeMode) -> Res {
    check_probe_layout(ctx, p, mode, 0)?;
    if !p.via_env && mode == ProbeMode::C16 {
        // the same settings in a file padded with comments: same verdict
        // (the scratch directory, and with it the persistence_directory path, differs from run to run)
        let strip = |x: (i32, Value, String)| {
            let mut v = x.1;
            if let Some(o) = v.as_object_mut() {
                o.remove("persistence_directory");
            }
            (x.0, v)
        };
        let plain = run_probe_layout(p, 0).ok().map(strip);
        for layout in [1u8, 2] {
            check_probe_layout(ctx, p, mode, layout)?;
            let padded = run_probe_layout(p, layout).ok().map(strip);
            if plain.is_some() && padded.is_some() && plain != padded {
                return ctx.fail(
                    "effective-differs-from-written|file|layout-of-the-file",
                    format!("file source: settings {:?} give {:?} when written one per line and {:?} when the file also contains ~5 KiB of comment lines (layout {})", p.settings, plain, padded, layout),
                );
            }
        }
        ctx.class("c16:file:padded-with-comments");
    }
    Ok(())
}

fn check_probe_layout(ctx: &mut Ctx, p: &Probe, mode: ProbeMode, layout: u8) -> Res {
    ctx.eval();
    let want = model(p);
    let (code, got, stderr) = match run_probe_layout(p, layout) {
        Ok(x) => x,
        Err(e) => {
            ctx.inconclusive(e);
            return Ok(());
        }
    };
    // the varied setting is the last one
    let (vk, vv) = p.settings.last().cloned().unwrap_or_default();
    let src = if p.via_env { "env" } else { "file" };
    let cls = value_class(&vk, &vv);
    ctx.class(&format!("c16:{}:{}:{}:{}", src, vk, cls, if matches!(want, Expect::Accept(_)) { "in-range" } else { "must-refuse" }));
    if cls != "within-type-width" {
        ctx.nontrivial(p);
    }
    if mode == ProbeMode::C15 {
        if let Expect::Accept(_) = want {
            if code != 0 {
                // a seed that YAML types as an integer (all digits, value fits i64, i.e. >= 45 leading zeros)
                let yaml_int = vk == "seed" && !p.via_env && vv.parse::<i64>().is_ok();
                return ctx.fail(
                    format!("in-range-configuration-refused|{}|{}{}", src, vk, if yaml_int { "|yaml-integer-scalar" } else { "" }),
                    format!("{} source, settings {:?} are all documented and in range but start-up is refused (exit {}): {} {}", src, p.settings, code, got, stderr.lines().find(|l| l.contains("panicked") || l.contains("rror")).unwrap_or("")),
                );
            }
            ctx.nontrivial(p);
        }
        return Ok(());
    }
    match want {
        Expect::Refuse(why) => {
            if code == 0 {
                return ctx.fail(
                    format!("accepted-out-of-range|{}|{}|{}", src, vk, cls),
                    format!("{} source, {}={:?} must be refused ({}) but start-up was accepted with effective settings {}", src, vk, vv, why, got),
                );
            }
        }
        Expect::Accept(eff) => {
            if code != 0 {
                // C16 allows a refusal ("effective == written, else start is refused"); that an in-range
                // configuration must start is C15's obligation and is checked there with the same probes
                ctx.class(&format!("c16:{}:{}:in-range-but-refused", src, vk));
                return Ok(());
            }
            for (k, v) in &eff {
                let g = got.get(k).cloned().unwrap_or(Value::Null);
                let same = if k == "persistence_directory" { true } else { &g == v };
                if !same {
                    return ctx.fail(
                        format!("effective-differs-from-written|{}|{}", src, k),
                        format!("{} source: {} written as {} but the server would run with {} (settings {:?})", src, k, v, g, p.settings),
                    );
                }
            }
        }
    }
    Ok(())
}

fn base_settings() -> Vec<(String, String)> {
    vec![("interface".into(), "127.0.0.1".into()), ("port".into(), "8686".into()), ("seed".into(), GOOD_SEED.into())]
}

fn int_grid(key: &str) -> Vec<i128> {
    let (lo, hi): (i128, i128) = match key {
        "port" | "health_check_port" => (1, 65_535),
        "batch_size" => (1, 64),
        "fault_percentage" => (0, 50),
        "num_workers" => (1, 64),
        _ => (1, 65_535),
    };
    let mut v = vec![lo - 1, lo, (lo + hi) / 2, hi, hi + 1, 255, 256, 300, 65_535, 65_536, 70_000, -1, -200, 1 << 31, (1i128 << 32) + 5, (1i128 << 32) + 8686];
    if key == "status_interval" {
        // only 1..=65535 is classified by the documents
        v = vec![1, 2, 10, 255, 256, 600, 65_535];
    }
    if key == "health_check_port" {
        v.retain(|x| *x != 0);
    }
    if key == "num_workers" {
        v.retain(|x| *x <= 1 << 33);
    }
    v.sort();
    v.dedup();
    v
}

fn with_setting(k: &str, v: &str, via_env: bool) -> Probe {
    let mut s = base_settings();
    let mut make_dir = false;
    s.retain(|x| x.0 != k);
    if k == "client_stats" {
        s.push(("persistence_directory".into(), "@DIR@".into()));
        make_dir = true;
    }
    s.push((k.to_string(), v.to_string()));
    Probe { via_env, settings: s, make_dir }
}

/// the probe plus per-client statistics switched on with a usable directory (a second, valid, option must not
/// change whether the first is refused)
fn with_stats_on(mut p: Probe) -> Probe {
    let last = p.settings.pop().unwrap();
    p.settings.retain(|x| x.0 != "client_stats" && x.0 != "persistence_directory");
    p.settings.push(("client_stats".into(), "on".into()));
    p.settings.push(("persistence_directory".into(), "@DIR@".into()));
    p.settings.push(last);
    p.make_dir = true;
    p
}

fn c16_grid() -> Vec<Probe> {
    let mut out = vec![];
    for via_env in [false, true] {
        for key in ["port", "batch_size", "fault_percentage", "num_workers", "health_check_port", "status_interval"] {
            for v in int_grid(key) {
                out.push(with_setting(key, &v.to_string(), via_env));
                out.push(with_stats_on(with_setting(key, &v.to_string(), via_env)));
            }
        }
        for v in ["on", "ON", "yes", "off", "no", "Yes", "On"] {
            out.push(with_setting("client_stats", v, via_env));
        }
        out.push(with_setting("interface", "127.0.0.1", via_env));
        out.push(with_setting("interface", "0.0.0.0", via_env));
        // seeds of wrong length / alphabet
        for s in [&GOOD_SEED[..62], &GOOD_SEED[..63], GOOD_SEED, &format!("{}a", GOOD_SEED), &format!("{}ab", GOOD_SEED), &format!("{}zz", &GOOD_SEED[..62]), &GOOD_SEED.to_uppercase()] {
            out.push(with_setting("seed", s, via_env));
            out.push(with_stats_on(with_setting("seed", s, via_env)));
        }
        // in-range seeds that are awkward to write in YAML
        for sd in ["1234567890123456789012345678901234567890123456789012345678901234", "0000000000000000000000000000000000000000000000000000000000000001", "123456789012345678901e345678901234567890123456789012345678901234"] {
            out.push(with_setting("seed", sd, via_env));
        }
        // missing required keys
        for missing in ["port", "interface", "seed"] {
            let mut s = base_settings();
            s.retain(|x| x.0 != missing);
            s.push(("batch_size".into(), "32".into()));
            out.push(Probe { via_env, settings: s, make_dir: false });
        }
        // client_stats on without a directory
        let mut s = base_settings();
        s.push(("client_stats".into(), "on".into()));
        out.push(Probe { via_env, settings: s, make_dir: false });
    }
    // unknown key (file only: unknown environment variables are simply not read), with ordinary, empty and null values
    for v in ["1", "", "~", "null", "on"] {
        let mut s = base_settings();
        s.push(("frobnicate".into(), v.into()));
        out.push(Probe { via_env: false, settings: s, make_dir: false });
        let mut s = base_settings();
        s.push(("fault_percentge".into(), v.into()));
        out.push(Probe { via_env: false, settings: s, make_dir: false });
    }
    // a documented key written without a value (YAML null) is not a value in range
    for k in ["batch_size", "fault_percentage", "num_workers", "health_check_port", "status_interval", "port"] {
        for v in ["", "~"] {
            out.push(with_setting(k, v, false));
        }
    }
    out
}

fn c16_random() -> impl Strategy<Value = Probe> {
    let key = prop::sample::select(vec!["port", "batch_size", "fault_percentage", "num_workers", "health_check_port", "status_interval"]);
    (any::<bool>(), key).prop_flat_map(|(via_env, key)| {
        let val: BoxedStrategy<i128> = match key {
            "status_interval" => (1i128..=65_535).boxed(),
            "health_check_port" => prop_oneof![3 => 1i128..=65_535, 2 => 65_536i128..=200_000, 1 => -70_000i128..=-1, 1 => (1i128 << 31)..(1i128 << 33)].boxed(),
            "num_workers" => prop_oneof![3 => 1i128..=1_000, 1 => -1_000i128..=0].boxed(),
            _ => prop_oneof![3 => -10i128..=300, 2 => 0i128..=70_000, 1 => 65_000i128..=140_000, 1 => -70_000i128..=-1, 1 => (1i128 << 31)..(1i128 << 33)].boxed(),
        };
        (val, prop::bool::weighted(0.3)).prop_map(move |(v, stats)| {
            let p = with_setting(key, &v.to_string(), via_env);
            if stats {
                with_stats_on(p)
            } else {
                p
            }
        })
    })
}

/// behavioural twin: the value the server *runs with*, measured on a server built from the loaded configuration
#[derive(Debug, Clone, Serialize, Deserialize)]
pub struct Behaviour {
    pub via_env: bool,
    pub fault: u8,
    pub batch_size: u8,
}

fn check_behaviour(ctx: &mut Ctx, b: &Behaviour) -> Res {
    use crate::srvlab::{install_logger, Lab, StepErr};
    use roughenough::config::{is_valid_config, make_config};
    install_logger(log::LevelFilter::Off);
    ctx.eval();
    let settings: Vec<(String, String)> = vec![("interface".into(), "127.0.0.1".into()), ("port".into(), "8686".into()), ("seed".into(), GOOD_SEED.into()), ("fault_percentage".into(), b.fault.to_string()), ("batch_size".into(), b.batch_size.to_string())];
    let dir = scratch_dir("c16b");
    let arg = if b.via_env {
        for (k, v) in &settings {
            std::env::set_var(format!("ROUGHENOUGH_{}", k.to_uppercase()), v);
        }
        "ENV".to_string()
    } else {
        let path = dir.join("b.cfg");
        std::fs::write(&path, settings.iter().map(|(k, v)| format!("{}: {}\n", k, v)).collect::<String>()).unwrap();
        path.display().to_string()
    };
    let cfg = no_unwind(|| make_config(&arg));
    if b.via_env {
        for (k, _) in &settings {
            std::env::remove_var(format!("ROUGHENOUGH_{}", k.to_uppercase()));
        }
    }
    let _ = std::fs::remove_dir_all(&dir);
    let cfg = match cfg {
        Ok(Ok(c)) if is_valid_config(c.as_ref()) => c,
        _ => return Ok(()), // refusing is C15's business
    };
    let src = if b.via_env { "env" } else { "file" };
    let mut lab = match Lab::with_config(cfg.as_ref(), 48) {
        Ok(l) => l,
        Err(e) => return ctx.fail("server-new-failed", e),
    };
    let pk = lab.pk.clone();
    let (mut total, mut failed) = (0u64, 0u64);
    let mut max_batch = 0usize;
    let mut k = 0u64;
    while total < 2_400 {
        // bursts of 130 classic requests: full batches have exactly batch_size members
        let mut sends = vec![];
        let mut reqs = vec![];
        for j in 0..130usize {
            k += 1;
            let r = fresh_request(Proto::Classic, b"c16b", k);
            sends.push((j % 48, r.clone()));
            reqs.push(r);
        }
        let res = match lab.step(&sends, 130) {
            Ok(r) => r,
            Err(StepErr::Panic(p)) => return ctx.fail(format!("process-events-panic|{}", panic_site(&p)), p),
            Err(StepErr::Wedged(m)) => return ctx.fail("wedged", m),
        };
        let mut by_srep: std::collections::HashMap<Vec<u8>, usize> = std::collections::HashMap::new();
        for (sock, replies) in res.replies.iter().enumerate() {
            for r in replies {
                total += 1;
                let mine: Vec<&Vec<u8>> = sends.iter().filter(|s| s.0 == sock).map(|s| &s.1).collect();
                match mine.iter().find_map(|q| verify_strict(Proto::Classic, q, r, &pk).ok()) {
                    Some(info) => *by_srep.entry(info.srep).or_insert(0) += 1,
                    None => failed += 1,
                }
            }
        }
        max_batch = max_batch.max(by_srep.values().copied().max().unwrap_or(0));
    }
    let p = b.fault as f64 / 100.0;
    let n = total as f64;
    let sigma = (n * p * (1.0 - p)).sqrt();
    if (failed as f64 - n * p).abs() > 6.0 * sigma + 1.0 {
        return ctx.fail(
            format!("effective-behaviour-differs-from-written|{}|fault_percentage", src),
            format!("{} source: fault_percentage written as {} and accepted, but {} of {} replies of the server built from that configuration were invalid (expected {:.0} +- {:.0})", src, b.fault, failed, total, n * p, 6.0 * sigma),
        );
    }
    // with faults on, corrupted replies drop out of their batch; only assert the upper bound then
    if max_batch > b.batch_size as usize || (b.fault == 0 && max_batch != b.batch_size.min(130) as usize) {
        return ctx.fail(
            format!("effective-behaviour-differs-from-written|{}|batch_size", src),
            format!("{} source: batch_size written as {} and accepted, but the largest batch observed under 130-request bursts had {} members", src, b.batch_size, max_batch),
        );
    }
    ctx.class(&format!("c16:behaviour:{}:fault={}:batch={}", src, b.fault, b.batch_size));
    ctx.nontrivial(&(b.via_env, b.fault, b.batch_size));
    Ok(())
}

/// behavioural twin for health_check_port: a TCP connection to the written port of a server built from the loaded
/// configuration is answered, whatever the relation of that number to the UDP `port`
#[derive(Debug, Clone, Serialize, Deserialize)]
pub struct HealthBehaviour {
    pub via_env: bool,
    pub port: u16,
    /// health_check_port - port
    pub delta: i32,
    /// another program already listens on the written health port (without SO_REUSEPORT): the written setting cannot
    /// take effect, so start-up has to fail — a server that starts anyway does not run with the written value
    #[serde(default)]
    pub occupied: bool,
}

fn check_health_behaviour(ctx: &mut Ctx, b: &HealthBehaviour) -> Res {
    use crate::srvlab::{install_logger, Lab};
    use roughenough::config::{is_valid_config, make_config};
    install_logger(log::LevelFilter::Off);
    ctx.eval();
    if !NET_ISOLATED.load(std::sync::atomic::Ordering::SeqCst) {
        // fixed port numbers are only ours inside a private network namespace
        ctx.class("c16:health-behaviour:skipped-no-private-netns");
        return Ok(());
    }
    let hc = (b.port as i32 + b.delta).clamp(1, 65_535) as u16;
    let settings: Vec<(String, String)> = vec![("interface".into(), "127.0.0.1".into()), ("port".into(), b.port.to_string()), ("seed".into(), GOOD_SEED.into()), ("health_check_port".into(), hc.to_string())];
    let dir = scratch_dir("c16h");
    let arg = if b.via_env {
        for (k, v) in &settings {
            std::env::set_var(format!("ROUGHENOUGH_{}", k.to_uppercase()), v);
        }
        "ENV".to_string()
    } else {
        let path = dir.join("h.cfg");
        std::fs::write(&path, settings.iter().map(|(k, v)| format!("{}: {}\n", k, v)).collect::<String>()).unwrap();
        path.display().to_string()
    };
    let cfg = no_unwind(|| make_config(&arg));
    if b.via_env {
        for (k, _) in &settings {
            std::env::remove_var(format!("ROUGHENOUGH_{}", k.to_uppercase()));
        }
    }
    let _ = std::fs::remove_dir_all(&dir);
    let src = if b.via_env { "env" } else { "file" };
    let cfg = match cfg {
        Ok(Ok(c)) if is_valid_config(c.as_ref()) => c,
        _ => return Ok(()), // refusing is C15's business
    };
    // (the worker process has its own network namespace: every port number is free)
    let squatter = if b.occupied { std::net::TcpListener::bind(("127.0.0.1", hc)).ok() } else { None };
    if b.occupied && squatter.is_none() {
        return Ok(());
    }
    let mut lab = match Lab::with_config(cfg.as_ref(), 1) {
        Ok(l) => l,
        Err(e) => {
            if b.occupied {
                // refused: fine
                ctx.class(&format!("c16:health-behaviour:{}:port-occupied:refused", src));
                ctx.nontrivial(&(b.via_env, b.port, b.delta, true));
                return Ok(());
            }
            return ctx.fail("server-new-failed", e);
        }
    };
    if let Some(sq) = &squatter {
        // the server started although somebody else owns the port: whoever connects reaches the other program
        sq.set_nonblocking(true).unwrap();
        let _probe = TcpStream::connect(("127.0.0.1", hc));
        let _ = lab.step(&[], 0);
        std::thread::sleep(Duration::from_millis(20));
        if sq.accept().is_ok() {
            return ctx.fail(
                format!("effective-behaviour-differs-from-written|{}|health_check_port", src),
                format!("{} source: health_check_port {} is held by another program; the configuration was accepted and the server started, but a connection to that port reaches the other program, not the server", src, hc),
            );
        }
    }
    use std::io::Read;
    for attempt in 0..2 {
        let mut st = match TcpStream::connect(("127.0.0.1", hc)) {
            Ok(s) => s,
            Err(e) => {
                return ctx.fail(
                    format!("effective-behaviour-differs-from-written|{}|health_check_port", src),
                    format!("{} source: health_check_port written as {} (port {}) and accepted, but connection #{} to TCP port {} of the server built from that configuration failed: {}", src, hc, b.port, attempt, hc, e),
                )
            }
        };
        if let Err(p) = lab.step(&[], 0) {
            return ctx.fail("health-step-failed", format!("{:?}", p));
        }
        st.set_read_timeout(Some(Duration::from_secs(2))).unwrap();
        let mut got = Vec::new();
        let _ = st.read_to_end(&mut got);
        if !health_ok(&got) {
            return ctx.fail(format!("effective-behaviour-differs-from-written|{}|health_check_port", src), format!("{} source: health_check_port {} (port {}): connection read {:?}", src, hc, b.port, String::from_utf8_lossy(&got)));
        }
    }
    ctx.class(&format!("c16:health-behaviour:{}:{}", src, if b.delta == 0 { "same-number-as-port" } else { "other" }));
    ctx.nontrivial(&(b.via_env, b.port, b.delta));
    Ok(())
}

pub fn run_c16(ctx: &mut Ctx) -> Vec<Violation> {
    let t = ctx.tier;
    let mut out = vec![];
    // behavioural twin for the two settings whose effect is observable on the wire
    let mut beh = vec![];
    for via_env in [false, true] {
        for (fault, bs) in [(0u8, 64u8), (1, 1), (10, 2), (25, 7), (49, 63), (50, 64), (50, 16), (0, 1), (0, 33), (50, 2), (50, 4), (40, 3), (50, 1)] {
            beh.push(Behaviour { via_env, fault, batch_size: bs });
        }
    }
    out.extend(run_enum(ctx, "behaviour", beh.len() as u64, |i| beh[i as usize].clone(), |ctx, b| check_behaviour(ctx, b)));
    let mut hb = vec![];
    for via_env in [false, true] {
        for (port, delta) in [(8686u16, 0i32), (8686, 1), (8686, -1), (2002, 0), (65_535, 0), (65_534, 1), (1024, -1), (40_000, 256), (40_000, -256)] {
            hb.push(HealthBehaviour { via_env, port, delta, occupied: false });
        }
        for (port, delta) in [(8686u16, 1i32), (8686, 0), (30_000, 7)] {
            hb.push(HealthBehaviour { via_env, port, delta, occupied: true });
        }
    }
    out.extend(run_enum(ctx, "health-behaviour", hb.len() as u64, |i| hb[i as usize].clone(), |ctx, b| check_health_behaviour(ctx, b)));
    let grid = c16_grid();
    let v = run_enum(ctx, "grid", grid.len() as u64, |i| grid[i as usize].clone(), |ctx, p| check_probe(ctx, p));
    if v.is_empty() && ctx.shard == 0 {
        ctx.stats.exhaustive_spaces.push(format!("boundary grid: {} probes (6 integer keys x boundary/wrap values, client_stats spellings, interfaces, seed lengths/alphabets, missing keys, unknown key) x file/ENV", grid.len()));
        ctx.sample("grid", 3, &grid[5]);
    }
    out.extend(v);
    out.extend(run_prop(ctx, "random", t.pick(8_000, 64_000), 200, c16_random(), |ctx, p| {
        ctx.sample("random", 2, p);
        check_probe(ctx, p)
    }));
    if t == Tier::Thorough {
        out.extend(c16_real_server_spot(ctx));
    }
    out
}

/// thorough: start the real server and compare its start-up log lines with what was written
fn c16_real_server_spot(ctx: &mut Ctx) -> Vec<Violation> {
    let cases: Vec<(u32, u32, u64, bool)> = vec![(1, 0, 1, false), (64, 50, 2, true), (2, 1, 3, false), (63, 10, 4, true)];
    run_enum(ctx, "real-spot", cases.len() as u64, |i| cases[i as usize], |ctx, (bs, fault, workers, via_env)| {
        ctx.eval();
        let cfg = SrvCfg { seed_hex: GOOD_SEED.into(), workers: Some(*workers), batch_size: Some(*bs), fault: Some(*fault), via_env: *via_env, ..Default::default() };
        let mut s = match ServerProc::start(&cfg) {
            Ok(s) => s,
            Err(e) => {
                ctx.inconclusive(e);
                return Ok(());
            }
        };
        if let Err(e) = s.wait_ready(Duration::from_secs(10)) {
            return ctx.fail("real-server-not-serving", e);
        }
        std::thread::sleep(Duration::from_millis(100));
        let out = s.output();
        // start-up log lines that state a setting must state the written value (lines are located by their label; if a
        // label is absent the log format differs from the one this spot check knows and nothing is concluded)
        let labelled = |label: &str| -> Option<String> { out.lines().find(|l| l.contains(label)).map(|l| l.rsplit(": ").next().unwrap_or("").trim().to_string()) };
        let checks: Vec<(&str, String)> = vec![("Number of workers", workers.to_string()), ("Max response batch size", bs.to_string()), ("Server listening on", format!("127.0.0.1:{}", s.port)), ("Deliberate response errors", if *fault > 0 { format!("~{}%", fault) } else { "disabled".into() })];
        for (label, want) in checks {
            match labelled(label) {
                Some(v) if v == want => {}
                Some(v) => return ctx.fail("startup-log-differs-from-written", format!("log line {:?} states {:?}, written value {:?}", label, v, want)),
                None => ctx.note(format!("start-up log has no {:?} line; spot check skipped for it", label)),
            }
        }
        ctx.nontrivial(&("real-spot", bs, fault, workers, via_env));
        s.signal(libc::SIGTERM);
        s.wait_exit(Duration::from_secs(5));
        Ok(())
    })
}

pub fn replay_c16(ctx: &mut Ctx, sub: &str, case: &Value) -> Res {
    match sub {
        "grid" | "random" => replay_case::<Probe, _>(ctx, case, |ctx, p| check_probe(ctx, p)),
        "behaviour" => replay_case::<Behaviour, _>(ctx, case, |ctx, b| check_behaviour(ctx, b)),
        "health-behaviour" => replay_case::<HealthBehaviour, _>(ctx, case, |ctx, b| check_health_behaviour(ctx, b)),
        _ => Err(viol("bad-replay-file", format!("sub {} is replayed by re-running the check", sub))),
    }
}

// =========================================================================================== shared: reference UDP client

/// send one request and wait for its reply
fn exchange(sock: &UdpSocket, addr: std::net::SocketAddr, req: &[u8], timeout: Duration) -> Option<Vec<u8>> {
    sock.set_read_timeout(Some(timeout)).ok()?;
    sock.send_to(req, addr).ok()?;
    let mut buf = [0u8; 4096];
    match sock.recv_from(&mut buf) {
        Ok((n, _)) => Some(buf[..n].to_vec()),
        Err(_) => None,
    }
}

fn pubk_of(info: &RespInfo) -> Vec<u8> {
    info.pubk.clone()
}

// =========================================================================================== C15

#[derive(Debug, Clone, Serialize, Deserialize, PartialEq, Eq, Hash)]
pub struct ConfigCase {
    /// None = not written (default = available parallelism)
    pub workers: Option<u8>,
    pub health: bool,
    pub batch_size: Option<u8>,
    pub fault: Option<u8>,
    pub status_interval: Option<u16>,
    pub stats: bool,
    pub via_env: bool,
    /// 0 = ordinary seed, 1 = 64 hex digits that are all decimal digits, 2 = the repository's example.cfg (ports rewritten)
    pub special: u8,
}

fn effective_workers(c: &ConfigCase) -> usize {
    c.workers.map(|w| w as usize).unwrap_or_else(|| std::thread::available_parallelism().map(|n| n.get()).unwrap_or(1))
}

fn check_config(ctx: &mut Ctx, c: &ConfigCase) -> Res {
    ctx.eval();
    let seed_hex = match c.special {
        1 => "1234567890123456789012345678901234567890123456789012345678901234".to_string(),
        _ => GOOD_SEED.to_string(),
    };
    let cfg = if c.special == 2 {
        // example.cfg as shipped: port, interface, seed, health_check_port; workers default
        SrvCfg { seed_hex: seed_hex.clone(), health: true, ..Default::default() }
    } else {
        SrvCfg { seed_hex: seed_hex.clone(), workers: c.workers.map(|w| w as u64), health: c.health, batch_size: c.batch_size.map(|b| b as u32), fault: c.fault.map(|f| f as u32), status_interval: c.status_interval.map(|s| s as u32), client_stats: c.stats, via_env: c.via_env, health_same_port: c.special == 3, extra: vec![], env_extra: vec![], inherit_ignored: vec![] }
    };
    if c.special == 2 {
        // make sure we really mirror the repository's file: same keys as /repo/example.cfg
        let ex = std::fs::read_to_string("/repo/example.cfg").unwrap_or_default();
        let keys: Vec<&str> = ex.lines().filter_map(|l| l.split(':').next()).map(|k| k.trim()).filter(|k| !k.is_empty() && !k.starts_with('#')).collect();
        let mut want = vec!["port", "interface", "seed", "health_check_port"];
        let mut have = keys.clone();
        want.sort();
        have.sort();
        if want != have {
            ctx.note(format!("example.cfg keys are {:?}; the harness mirrors {:?}", keys, want));
        }
    }
    let n = if c.special == 2 { effective_workers(&ConfigCase { workers: None, ..c.clone() }) } else { effective_workers(c) };
    let fault = cfg.fault.unwrap_or(0);
    let tag = format!("workers={} health={} stats={} src={} special={}", n, cfg.health, cfg.client_stats, if cfg.via_env { "env" } else { "file" }, c.special);
    let mut s = match ServerProc::start(&cfg) {
        Ok(s) => s,
        Err(e) => {
            ctx.inconclusive(format!("proclab: {}", e));
            return Ok(());
        }
    };
    if let Err(e) = s.wait_ready(Duration::from_secs(10)) {
        let out = s.output();
        if out.contains("Address already in use") && !out.contains("health check") {
            ctx.inconclusive(format!("port race: {}", e));
            return Ok(());
        }
        let sig = if c.special == 1 { "start-up-fails|seed-scalar-not-yaml-string" } else if out.contains("panicked") { "start-up-panics" } else { "not-serving-after-start" };
        return ctx.fail(sig, format!("{}: the server does not serve within 10 s: {}", tag, truncate(&e, 500)));
    }
    // all configured workers come up, with distinct names
    let want_names: Vec<String> = (0..n).map(|i| format!("worker-{}", i)).collect();
    let deadline = Instant::now() + Duration::from_secs(3);
    let mut names;
    loop {
        names = s.thread_names();
        let have: HashSet<&String> = names.iter().filter(|x| x.starts_with("worker-")).collect();
        if want_names.iter().all(|w| have.contains(w)) || Instant::now() > deadline {
            break;
        }
        std::thread::sleep(Duration::from_millis(20));
    }
    let live_workers = |names: &Vec<String>| -> usize { want_names.iter().filter(|w| names.contains(w)).count() };
    if live_workers(&names) != n {
        let out = s.output();
        let why = if out.contains("failed to bind TCP listener") { "health-listener-bind" } else if out.contains("panicked") { "worker-panic" } else { "unknown" };
        return ctx.fail(
            format!("fewer-live-workers-than-configured|{}", why),
            format!("{}: {} of {} configured workers are alive (threads {:?}); output: {}", tag, live_workers(&names), n, names, truncate(&out.lines().filter(|l| l.contains("panicked") || l.contains("rror")).take(4).collect::<Vec<_>>().join(" | "), 600)),
        );
    }
    // 64*N classic requests from distinct sockets, waves of <= 48 in flight, each answered exactly once
    let total = 64 * n;
    let mut keys: HashSet<Vec<u8>> = HashSet::new();
    let (mut verified, mut failed) = (0usize, 0usize);
    let mut k = 0u64;
    let mut sent_total = 0usize;
    while sent_total < total {
        let wave = 48.min(total - sent_total);
        let socks: Vec<UdpSocket> = (0..wave).map(|_| UdpSocket::bind("127.0.0.1:0").unwrap()).collect();
        let mut reqs = vec![];
        for sock in &socks {
            k += 1;
            // two classic requests, then one IETF request, and so on: every wave mixes the protocols
            let proto = if k % 3 == 0 { Proto::Ietf } else { Proto::Classic };
            let req = fresh_request(proto, b"c15", k ^ ((s.port as u64) << 32));
            let _ = sock.send_to(&req, s.addr());
            reqs.push((proto, req));
        }
        for (sock, (proto, req)) in socks.iter().zip(reqs.iter()) {
            sock.set_read_timeout(Some(Duration::from_secs(3))).unwrap();
            let mut buf = [0u8; 4096];
            match sock.recv_from(&mut buf) {
                Ok((len, _)) => match verify_strict(*proto, req, &buf[..len], &s.pk) {
                    Ok(info) => {
                        verified += 1;
                        // (one delegated key per worker and protocol: the census counts the classic ones)
                        if *proto == Proto::Classic {
                            keys.insert(pubk_of(&info));
                        }
                    }
                    Err(e) => {
                        failed += 1;
                        if fault == 0 {
                            return ctx.fail(format!("reply-invalid|{}", e), format!("{}: a reply fails strict verification under the seed's key: {}", tag, e));
                        }
                    }
                },
                Err(_) => {
                    if s.udp_drops() > 0 {
                        ctx.note(format!("{}: a request went unanswered but the kernel reports drops; configuration not judged", tag));
                        ctx.class("c15:not-judged-kernel-drops");
                        return Ok(());
                    }
                    return ctx.fail("request-unanswered", format!("{}: a valid request got no reply within 3 s (no kernel drops); workers alive: {:?}", tag, s.thread_names()));
                }
            }
            // exactly once: nothing further queued for this socket
            sock.set_nonblocking(true).unwrap();
            if sock.recv_from(&mut buf).is_ok() {
                return ctx.fail("request-answered-twice", format!("{}: a second datagram arrived for one request", tag));
            }
        }
        sent_total += wave;
    }
    if keys.len() != n {
        return ctx.fail(
            "distinct-worker-certificates",
            format!("{}: {} verified replies ({} failed) carry {} distinct delegated keys, expected one per worker = {}", tag, verified, failed, keys.len(), n),
        );
    }
    // one client sends a burst larger than a batch in one go, with datagrams that are not requests in front of and
    // between the valid ones (all land on one worker): every valid request of the burst is answered, none twice
    {
        let bs = c.batch_size.map(|b| b as usize).unwrap_or(64);
        for round in 0..2u64 {
            let sock = UdpSocket::bind("127.0.0.1:0").unwrap();
            // more than one batch; for small batch sizes more than sixteen batches (the worker handles a bounded
            // number of batches per wake-up)
            let m = if bs <= 4 { 16 * bs + 8 } else { bs + 8 };
            let mut reqs = vec![];
            let mut queued_health: Vec<TcpStream> = vec![];
            // second round: the server is not scheduled while the burst arrives (stopped, then continued), so the
            // whole burst is queued on the socket when the worker next looks
            if round == 1 {
                s.signal(libc::SIGSTOP);
            }
            let _ = sock.send_to(&[], s.addr());
            let _ = sock.send_to(&[0u8; 4], s.addr());
            for j in 0..m {
                k += 1;
                let req = fresh_request(Proto::Classic, b"c15b", k ^ (round << 40));
                let _ = sock.send_to(&req, s.addr());
                if j == bs / 2 || j + 2 == m {
                    let _ = sock.send_to(&[0xffu8; 1024], s.addr());
                }
                reqs.push(req);
            }
            if round == 1 {
                // health connections made while the server is stopped sit in the accept queue behind the UDP backlog
                if let Some(hc) = s.hc_port {
                    for _ in 0..2 {
                        if let Ok(st) = TcpStream::connect_timeout(&format!("127.0.0.1:{}", hc).parse().unwrap(), Duration::from_secs(2)) {
                            queued_health.push(st);
                        }
                    }
                }
                std::thread::sleep(Duration::from_millis(20));
                s.signal(libc::SIGCONT);
            }
            sock.set_read_timeout(Some(Duration::from_millis(200))).unwrap();
            let mut got = 0usize;
            let mut buf = [0u8; 4096];
            let end = Instant::now() + Duration::from_secs(3);
            while got < m && Instant::now() < end {
                if let Ok((len, _)) = sock.recv_from(&mut buf) {
                    got += 1;
                    if fault == 0 && !reqs.iter().any(|r| verify_strict(Proto::Classic, r, &buf[..len], &s.pk).is_ok()) {
                        return ctx.fail("reply-invalid|burst", format!("{}: a reply to a one-client burst verifies for none of its requests", tag));
                    }
                }
            }
            if got < m {
                if s.udp_drops() > 0 {
                    // in the stopped round nothing is drained while the burst arrives: it either fits the queue or not. A
                    // socket with the system's default receive buffer holds `cap` such datagrams (measured here, now)
                    let cap = default_queue_capacity(1024);
                    if round == 1 && (m + 4) * 100 <= cap * 85 {
                        return ctx.fail(
                            "request-unanswered|receive-queue-smaller-than-the-default",
                            format!("{}: {} requests (+4 other datagrams) were sent to the stopped server by one client; a socket with the default receive buffer holds {} such datagrams, yet the kernel dropped {} at the server's socket and only {} requests were answered", tag, m, cap, s.udp_drops(), got),
                        );
                    }
                    ctx.note(format!("{}: burst replies missing but the kernel reports drops; configuration not judged", tag));
                    ctx.class("c15:not-judged-kernel-drops");
                    return Ok(());
                }
                return ctx.fail(
                    "request-unanswered|burst-with-non-requests",
                    format!("{}: one client sent {} valid requests in one burst with 4 datagrams that are not requests among them (batch_size {}); only {} were answered within 3 s and the kernel reports no drops", tag, m, bs, got),
                );
            }
            std::thread::sleep(Duration::from_millis(30));
            sock.set_nonblocking(true).unwrap();
            if sock.recv_from(&mut buf).is_ok() {
                return ctx.fail("request-answered-twice", format!("{}: more replies than requests for a one-client burst", tag));
            }
            for (j, mut st) in queued_health.into_iter().enumerate() {
                st.set_read_timeout(Some(Duration::from_secs(3))).unwrap();
                let mut got = Vec::new();
                let _ = st.read_to_end(&mut got);
                if !health_ok(&got) {
                    return ctx.fail(
                        "health-no-response|queued-behind-request-backlog",
                        format!("{}: health connection #{} was made while {} requests were queued for a stopped server; after it continued the requests were answered but the connection read {:?} within 3 s", tag, j, m, String::from_utf8_lossy(&got)),
                    );
                }
            }
        }
        ctx.class("c15:one-client-burst-with-non-requests");
    }
    // health port: 3*N sequential connections, each gets exactly the fixed response then EOF; UDP keeps being answered
    if let Some(hc) = s.hc_port {
        const WANT: &str = "HTTP/1.1 200 OK\nContent-Length: 0\nConnection: close\n\n";
        let probe = UdpSocket::bind("127.0.0.1:0").unwrap();
        // impolite clients first: connections that are reset right after the handshake (SO_LINGER 0 => RST),
        // and ones closed without reading. The server must take them in its stride.
        for j in 0..2 * n {
            if let Ok(st) = TcpStream::connect_timeout(&format!("127.0.0.1:{}", hc).parse().unwrap(), Duration::from_secs(2)) {
                if j % 2 == 0 {
                    unsafe {
                        use std::os::unix::io::AsRawFd;
                        let lg = libc::linger { l_onoff: 1, l_linger: 0 };
                        libc::setsockopt(st.as_raw_fd(), libc::SOL_SOCKET, libc::SO_LINGER, &lg as *const _ as *const libc::c_void, std::mem::size_of::<libc::linger>() as u32);
                    }
                }
                drop(st);
            }
        }
        std::thread::sleep(Duration::from_millis(50));
        // a burst: 2*N+1 connections opened at the same time, all of them must be answered
        let burst: Vec<TcpStream> = (0..2 * n + 1).filter_map(|_| TcpStream::connect_timeout(&format!("127.0.0.1:{}", hc).parse().unwrap(), Duration::from_secs(2)).ok()).collect();
        for (j, mut st) in burst.into_iter().enumerate() {
            st.set_read_timeout(Some(Duration::from_secs(3))).unwrap();
            let mut got = Vec::new();
            let _ = st.read_to_end(&mut got);
            if !health_ok(&got) {
                return ctx.fail(
                    if got.is_empty() { "health-no-response|burst" } else { "health-response-differs" },
                    format!("{}: connection #{} of a burst of {} simultaneous health connections read {:?} within 3 s", tag, j, 2 * n + 1, String::from_utf8_lossy(&got)),
                );
            }
        }
        // clients that connect and say nothing, or stop in the middle of their request line, and stay connected:
        // the time service must go on for everybody (requests from 4*N fresh sockets reach every worker)
        {
            let mut held: Vec<TcpStream> = vec![];
            for j in 0..2 * n {
                if let Ok(mut st) = TcpStream::connect_timeout(&format!("127.0.0.1:{}", hc).parse().unwrap(), Duration::from_secs(2)) {
                    if j % 2 == 1 {
                        let _ = st.write_all(b"GET / HT");
                    }
                    held.push(st);
                }
            }
            std::thread::sleep(Duration::from_millis(30));
            for j in 0..4 * n {
                let c = UdpSocket::bind("127.0.0.1:0").unwrap();
                k += 1;
                let req = fresh_request(Proto::Classic, b"c15q", k);
                if exchange(&c, s.addr(), &req, Duration::from_secs(3)).is_none() && s.udp_drops() == 0 {
                    return ctx.fail(
                        "time-service-stalls-during-health-checks|silent-connection-held-open",
                        format!("{}: with {} health connections open that send nothing (or half a request line), UDP request #{} from a fresh socket went unanswered for 3 s", tag, held.len(), j),
                    );
                }
            }
            drop(held);
        }
        // a large burst: 70 connections pending at once (more than any per-event bound an implementation may have);
        // all are answered, and the time service goes on afterwards (the UDP exchange of the sequential run below)
        {
            let big: Vec<TcpStream> = (0..70).filter_map(|_| TcpStream::connect_timeout(&format!("127.0.0.1:{}", hc).parse().unwrap(), Duration::from_secs(2)).ok()).collect();
            let opened = big.len();
            for (j, mut st) in big.into_iter().enumerate() {
                st.set_read_timeout(Some(Duration::from_secs(3))).unwrap();
                let mut got = Vec::new();
                let _ = st.read_to_end(&mut got);
                if !health_ok(&got) {
                    return ctx.fail("health-no-response|burst-70", format!("{}: connection #{} of {} simultaneous health connections read {:?} within 3 s", tag, j, opened, String::from_utf8_lossy(&got)));
                }
            }
        }
        for j in 0..3 * n {
            let mut st = match TcpStream::connect_timeout(&format!("127.0.0.1:{}", hc).parse().unwrap(), Duration::from_secs(2)) {
                Ok(st) => st,
                Err(e) => return ctx.fail("health-connect-failed", format!("{}: connection #{} to the health port failed: {}", tag, j, e)),
            };
            st.set_read_timeout(Some(Duration::from_secs(3))).unwrap();
            let _ = st.write_all(b"GET / HTTP/1.0\r\n\r\n");
            let mut got = Vec::new();
            let r = st.read_to_end(&mut got);
            if r.is_err() && got.is_empty() {
                return ctx.fail("health-no-response|after-aborted-connections", format!("{}: health connection #{} (sequential, after {} connections that were reset or closed unread and a burst) got no response within 3 s", tag, j, 2 * n));
            }
            if !health_ok(&got) {
                return ctx.fail("health-response-differs", format!("{}: health connection #{} read {:?}", tag, j, String::from_utf8_lossy(&got)));
            }
            if got != WANT.as_bytes() {
                ctx.class("c15:health-response-not-byte-identical-to-the-current-text");
            }
            k += 1;
            let req = fresh_request(Proto::Classic, b"c15h", k);
            match exchange(&probe, s.addr(), &req, Duration::from_secs(3)) {
                Some(r) => {
                    if fault == 0 && verify_strict(Proto::Classic, &req, &r, &s.pk).is_err() {
                        return ctx.fail("reply-invalid|during-health-checks", format!("{}: invalid reply while health checks run", tag));
                    }
                }
                None => return ctx.fail("time-service-stalls-during-health-checks", format!("{}: UDP request unanswered while health checks run", tag)),
            }
        }
    }
    // endurance: "answers every TCP connection" also holds for the (limit+1)-th one. The descriptor limit of the
    // running server is lowered to what it has open now plus 40 (a well-behaved server closes each health connection
    // after answering it), then more sequential connections than that are made; all must be answered, UDP too.
    if let (Some(hc), Some(base)) = (s.hc_port, s.fd_count()) {
        if s.set_nofile_soft(base as u64 + 40) {
            let total = 40 + 60;
            for j in 0..total {
                let mut st = match TcpStream::connect_timeout(&format!("127.0.0.1:{}", hc).parse().unwrap(), Duration::from_secs(2)) {
                    Ok(st) => st,
                    Err(e) => return ctx.fail("health-connect-failed|endurance", format!("{}: health connection #{} of a long sequential run failed: {}", tag, j, e)),
                };
                st.set_read_timeout(Some(Duration::from_secs(3))).unwrap();
                let mut got = Vec::new();
                let _ = st.read_to_end(&mut got);
                if !health_ok(&got) {
                    return ctx.fail(
                        "health-no-response|endurance",
                        format!("{}: health connection #{} of a sequential run read {:?}; the server had {} descriptors open before the run, now {:?}, soft limit {} (descriptors of answered connections are not released?)", tag, j, String::from_utf8_lossy(&got), base, s.fd_count(), base + 40),
                    );
                }
            }
            k += 1;
            let probe = UdpSocket::bind("127.0.0.1:0").unwrap();
            let req = fresh_request(Proto::Classic, b"c15e", k);
            if exchange(&probe, s.addr(), &req, Duration::from_secs(3)).is_none() {
                return ctx.fail("time-service-stalls-during-health-checks", format!("{}: UDP request unanswered after {} health connections", tag, total));
            }
            ctx.class("c15:health-endurance-run");
        }
    }
    // with per-client statistics on, workers publish snapshots every status_interval/10: keep traffic flowing for a
    // while so that several snapshots are taken under load ("time service continues")
    if cfg.client_stats {
        let end = Instant::now() + Duration::from_millis(1500);
        let socks: Vec<UdpSocket> = (0..8).map(|_| UdpSocket::bind("127.0.0.1:0").unwrap()).collect();
        let mut unanswered = 0;
        while Instant::now() < end {
            for sock in &socks {
                k += 1;
                let req = fresh_request(Proto::Classic, b"c15s", k);
                if exchange(sock, s.addr(), &req, Duration::from_millis(500)).is_none() {
                    unanswered += 1;
                }
            }
        }
        if unanswered > 0 && s.udp_drops() == 0 {
            let names = s.thread_names();
            return ctx.fail("time-service-degrades-with-client-stats", format!("{}: {} requests unanswered during 1.5 s of steady traffic; workers alive: {} of {}", tag, unanswered, live_workers(&names), n));
        }
    }
    // liveness after 1 s, no panic text
    std::thread::sleep(Duration::from_secs(1));
    let names = s.thread_names();
    if !s.alive() || live_workers(&names) != n {
        return ctx.fail("worker-died-after-start", format!("{}: after 1 s only {} of {} workers are alive (process alive: {})", tag, live_workers(&names), n, s.alive()));
    }
    let out = s.output();
    if out.contains("panicked") {
        return ctx.fail("panic-text-on-stderr", format!("{}: {}", tag, truncate(&out.lines().filter(|l| l.contains("panicked")).take(3).collect::<Vec<_>>().join(" | "), 500)));
    }
    s.signal(libc::SIGTERM);
    s.wait_exit(Duration::from_secs(5));
    ctx.class(&format!("c15:workers={}:health={}:stats={}:{}", if n == 1 { "1" } else if n <= 4 { "2-4" } else { "5-16" }, cfg.health, cfg.client_stats, if cfg.via_env { "env" } else { "file" }));
    if n >= 2 || cfg.health || cfg.client_stats {
        ctx.nontrivial(c);
    }
    Ok(())
}

/// how many datagrams of `size` bytes a UDP socket with the system's DEFAULT receive buffer queues when nobody reads
/// (measured on a fresh loopback socket pair)
pub fn default_queue_capacity(size: usize) -> usize {
    let r = match UdpSocket::bind("127.0.0.1:0") {
        Ok(r) => r,
        Err(_) => return 0,
    };
    let s = match UdpSocket::bind("127.0.0.1:0") {
        Ok(s) => s,
        Err(_) => return 0,
    };
    let payload = vec![0u8; size];
    for _ in 0..600 {
        let _ = s.send_to(&payload, r.local_addr().unwrap());
    }
    r.set_nonblocking(true).unwrap();
    let mut buf = vec![0u8; size + 16];
    let mut n = 0;
    while r.recv_from(&mut buf).is_ok() {
        n += 1;
    }
    n
}

/// "the fixed HTTP 200 response": an HTTP/1.x 200 status line, header lines only, no body, then EOF
fn health_ok(got: &[u8]) -> bool {
    let t = String::from_utf8_lossy(got);
    let mut lines = t.split('\n');
    let status = lines.next().unwrap_or("").trim_end_matches('\r');
    if !(status.starts_with("HTTP/1.1 200") || status.starts_with("HTTP/1.0 200")) {
        return false;
    }
    // headers until an empty line, nothing but whitespace after it
    let mut saw_end = false;
    for l in lines {
        let l = l.trim_end_matches('\r');
        if saw_end {
            if !l.trim().is_empty() {
                return false;
            }
        } else if l.is_empty() {
            saw_end = true;
        } else if !l.contains(':') {
            return false;
        } else if l.to_ascii_lowercase().starts_with("content-length") && l.split(':').nth(1).map(|v| v.trim() != "0").unwrap_or(true) {
            return false;
        }
    }
    saw_end
}

fn truncate(s: &str, n: usize) -> String {
    if s.len() <= n {
        s.to_string()
    } else {
        let mut c = n;
        while !s.is_char_boundary(c) {
            c -= 1;
        }
        format!("{}…", &s[..c])
    }
}

fn c15_pairwise() -> Vec<ConfigCase> {
    // all pairs of {workers>1, health, stats, source}, plus boundary values of the other options
    let mut out = vec![ConfigCase { workers: None, health: true, batch_size: None, fault: None, status_interval: None, stats: false, via_env: false, special: 2 }];
    let bs = [1u8, 2, 63, 64];
    let fs = [0u8, 1, 50];
    let si = [1u16, 10, 600];
    let ws = [1u8, 2, 3, 4, 8, 16];
    let mut i = 0usize;
    for health in [false, true] {
        for stats in [false, true] {
            for via_env in [false, true] {
                for multi in [false, true] {
                    i += 1;
                    let w = if multi { ws[1 + i % 5] } else { 1 };
                    out.push(ConfigCase { workers: Some(w), health, batch_size: Some(bs[i % 4]), fault: Some(fs[i % 3]), status_interval: Some(si[i % 3]), stats, via_env, special: 0 });
                }
            }
        }
    }
    // statistics snapshots every 100 ms on several workers
    out.push(ConfigCase { workers: Some(4), health: false, batch_size: Some(64), fault: Some(0), status_interval: Some(1), stats: true, via_env: false, special: 0 });
    out.push(ConfigCase { workers: Some(2), health: true, batch_size: Some(2), fault: Some(0), status_interval: Some(1), stats: true, via_env: true, special: 0 });
    // defaults left unwritten, all 16 workers
    out.push(ConfigCase { workers: None, health: false, batch_size: None, fault: None, status_interval: None, stats: false, via_env: true, special: 0 });
    out.push(ConfigCase { workers: Some(16), health: true, batch_size: Some(64), fault: Some(0), status_interval: Some(600), stats: false, via_env: true, special: 0 });
    // awkward-to-write in-range seed
    // health_check_port written with the same number as the UDP port
    out.push(ConfigCase { workers: Some(2), health: true, batch_size: None, fault: None, status_interval: None, stats: false, via_env: false, special: 3 });
    out.push(ConfigCase { workers: Some(1), health: true, batch_size: Some(63), fault: None, status_interval: None, stats: true, via_env: true, special: 3 });
    out.push(ConfigCase { workers: Some(1), health: false, batch_size: None, fault: None, status_interval: None, stats: false, via_env: false, special: 1 });
    out.push(ConfigCase { workers: Some(1), health: false, batch_size: None, fault: None, status_interval: None, stats: false, via_env: true, special: 1 });
    out
}

fn c15_random() -> impl Strategy<Value = ConfigCase> {
    (prop_oneof![1 => Just(None), 6 => (1u8..=16).prop_map(Some)], any::<bool>(), prop::sample::select(vec![1u8, 2, 63, 64]), prop::sample::select(vec![0u8, 1, 50]), prop::sample::select(vec![1u16, 10, 600]), prop::bool::weighted(0.25), any::<bool>())
        .prop_map(|(workers, health, bs, f, si, stats, via_env)| ConfigCase { workers, health, batch_size: Some(bs), fault: Some(f), status_interval: Some(si), stats, via_env, special: 0 })
}

pub fn run_c15(ctx: &mut Ctx) -> Vec<Violation> {
    let t = ctx.tier;
    let mut out = vec![];
    // cheap twin: the loader accepts every documented in-range configuration of the boundary grid
    let grid: Vec<Probe> = c16_grid().into_iter().filter(|p| matches!(model(p), Expect::Accept(_))).collect();
    let v = run_enum(ctx, "accepts-in-range", grid.len() as u64, |i| grid[i as usize].clone(), |ctx, p| check_probe_mode(ctx, p, ProbeMode::C15));
    if v.is_empty() && ctx.shard == 0 {
        ctx.stats.exhaustive_spaces.push(format!("loader acceptance of all {} in-range probes of the C16 boundary grid (file and ENV)", grid.len()));
    }
    out.extend(v);
    let grid = c15_pairwise();
    let v = run_enum(ctx, "pairwise", grid.len() as u64, |i| grid[i as usize].clone(), |ctx, c| check_config(ctx, c));
    if ctx.shard == 0 {
        ctx.sample("pairwise", 3, &grid[0]);
        ctx.sample("pairwise", 3, &grid[3]);
    }
    out.extend(v);
    out.extend(run_prop(ctx, "random", t.pick(16, 400), 8, c15_random(), |ctx, c| {
        ctx.sample("random", 2, c);
        check_config(ctx, c)
    }));
    out
}

pub fn replay_c15(ctx: &mut Ctx, sub: &str, case: &Value) -> Res {
    if sub == "accepts-in-range" {
        return replay_case::<Probe, _>(ctx, case, |ctx, p| check_probe_mode(ctx, p, ProbeMode::C15));
    }
    replay_case::<ConfigCase, _>(ctx, case, |ctx, c| check_config(ctx, c))
}

// =========================================================================================== C18

#[derive(Debug, Clone, Serialize, Deserialize)]
pub struct Round {
    pub workers: u8,
    pub stats: bool,
    pub clients: u8,
    /// 0 classic, 1 ietf, 2 per-client alternating, 3 per-request alternating
    pub mix: u8,
    pub reqs: u16,
    pub think_us: u16,
    pub shared_nonces: bool,
    pub batch_size: u8,
    /// impatient clients: every third request is sent twice back to back (a retransmission). Both copies are
    /// requests; the server may answer both (it does) — each reply must be valid for that request, and nobody
    /// else's reply may suffer
    #[serde(default)]
    pub retransmit: bool,
    /// 20 ms into the round the whole server process is stopped (SIGSTOP) and continued 30 ms later, as job control
    /// or a debugger attach does: nothing may be lost, no worker may die
    #[serde(default)]
    pub pause: bool,
    /// during the round another sender keeps sending valid requests whose replies cannot be delivered (UDP source
    /// port 0): everybody else is still answered
    #[serde(default)]
    pub noise: bool,
}

struct ClientOutcome {
    violation: Option<Viol>,
    inconclusive: Option<String>,
    keys: HashSet<Vec<u8>>,
    done: u64,
    /// classic replies whose microsecond midpoint lies before the request was sent / after the reply was received,
    /// beyond a 2 ms tolerance (harness and server read the same CLOCK_REALTIME): (how far in ns, description)
    clock_outliers: Vec<(u128, String)>,
}

/// sum of the "dropped" column of /proc/net/softnet_stat (packets dropped because a CPU's input backlog was full)
fn softnet_drops() -> u64 {
    std::fs::read_to_string("/proc/net/softnet_stat")
        .map(|t| t.lines().filter_map(|l| l.split_whitespace().nth(1).and_then(|x| u64::from_str_radix(x, 16).ok())).sum())
        .unwrap_or(0)
}

fn run_round(ctx: &mut Ctx, s: &mut ServerProc, r: &Round, round_no: u64) -> Res {
    let addr = s.addr();
    let pk = s.pk.clone();
    let port = s.port;
    let n_clients = r.clients.max(1) as usize;
    let round_mono = Instant::now();
    let round_real = std::time::SystemTime::now();
    let mut handles = vec![];
    // packets dropped before they reach any socket (per-CPU backlog of the loopback device full) are counted host-wide
    let softnet0 = softnet_drops();
    // everything that can be outstanding at once (closed loop: one request per client, two when retransmitting, plus the
    // noise sender during a pause) against what a socket with the DEFAULT receive buffer queues
    let outstanding_max = n_clients * if r.retransmit && r.clients <= 32 { 2 } else { 1 } + if r.noise { 20 } else { 0 };
    let default_cap = default_queue_capacity(1036);
    let server_drops0 = udp_drops_for_port(port);
    for c in 0..n_clients {
        let r = r.clone();
        let pk = pk.clone();
        handles.push(std::thread::spawn(move || -> ClientOutcome {
            let mut out = ClientOutcome { violation: None, inconclusive: None, keys: HashSet::new(), done: 0, clock_outliers: vec![] };
            let sock = UdpSocket::bind("127.0.0.1:0").unwrap();
            let my_port = sock.local_addr().unwrap().port();
            let mut buf = [0u8; 4096];
            let mut retransmitting = true;
            for k in 0..r.reqs as u64 {
                let proto = match r.mix % 4 {
                    0 => Proto::Classic,
                    1 => Proto::Ietf,
                    2 => if c % 2 == 0 { Proto::Classic } else { Proto::Ietf },
                    _ => if (k + c as u64) % 2 == 0 { Proto::Classic } else { Proto::Ietf },
                };
                // shared nonces: all clients use the same nonce sequence
                let id = if r.shared_nonces { k } else { (c as u64) << 32 | k };
                let req = fresh_request(proto, b"c18", id ^ (round_no << 48));
                sock.set_nonblocking(false).unwrap();
                sock.set_read_timeout(Some(Duration::from_secs(10))).unwrap();
                let t_send = std::time::SystemTime::now().duration_since(std::time::UNIX_EPOCH).unwrap().as_nanos();
                if sock.send_to(&req, addr).is_err() {
                    out.inconclusive = Some("send failed".into());
                    return out;
                }
                // (only while all outstanding datagrams of the round fit one worker's receive buffer: 2 per client, ~90 fit)
                let twice = r.retransmit && r.clients <= 32 && retransmitting && (k + c as u64) % 3 == 0;
                if twice {
                    let _ = sock.send_to(&req, addr);
                }
                match sock.recv_from(&mut buf) {
                    Ok((len, _)) => match verify_strict(proto, &req, &buf[..len], &pk) {
                        Ok(info) => {
                            let t_recv = std::time::SystemTime::now().duration_since(std::time::UNIX_EPOCH).unwrap().as_nanos();
                            out.keys.insert(info.pubk.clone());
                            out.done += 1;
                            // the batch was signed between our send and our receive
                            let unit: u128 = if proto == Proto::Classic { 1_000 } else { 1_000_000_000 };
                            let lo = info.midp as u128 * unit; // reading lies in [lo, lo + unit)
                            const TOL: u128 = 2_000_000;
                            if lo + unit + TOL <= t_send {
                                out.clock_outliers.push((t_send - lo - unit, format!("{} MIDP {} is {} us BEFORE the request was even sent", proto.name(), info.midp, (t_send - lo - unit) / 1000)));
                            } else if lo > t_recv + TOL {
                                out.clock_outliers.push((lo - t_recv, format!("{} MIDP {} is {} us AFTER the reply was received", proto.name(), info.midp, (lo - t_recv) / 1000)));
                            }
                        }
                        Err(e) => {
                            out.violation = Some(viol(format!("reply-invalid-under-load|{}", e), format!("client {} request {} ({}): reply fails strict verification for the outstanding request: {}", c, k, proto.name(), e)));
                            return out;
                        }
                    },
                    Err(_) => {
                        let server_drops = udp_drops_for_port(port).saturating_sub(server_drops0);
                        let drops = server_drops + udp_drops_for_port(my_port) + softnet_drops().saturating_sub(softnet0);
                        if server_drops > 0 && !r.noise && outstanding_max * 100 <= default_cap * 85 {
                            out.violation = Some(viol(
                                "request-unanswered-under-load|receive-queue-smaller-than-the-default",
                                format!("client {} request {} ({}) got no reply within 10 s; the kernel dropped {} datagrams at the server's socket although at most {} datagrams can be outstanding in this round and a socket with the default receive buffer queues {}", c, k, proto.name(), server_drops, outstanding_max, default_cap),
                            ));
                        } else if drops > 0 {
                            out.inconclusive = Some(format!("request unanswered but {} kernel drops reported", drops));
                        } else {
                            out.violation = Some(viol("request-unanswered-under-load", format!("client {} request {} ({}) got no reply within 10 s and the kernel reports no drops", c, k, proto.name())));
                        }
                        return out;
                    }
                }
                if twice {
                    // the copy's reply: same worker, same or next batch. If none comes within 2 s the server evidently
                    // folds retransmissions (allowed); this client then stops retransmitting
                    sock.set_read_timeout(Some(Duration::from_secs(2))).unwrap();
                    match sock.recv_from(&mut buf) {
                        Ok((len, _)) => {
                            if let Err(e) = verify_strict(proto, &req, &buf[..len], &pk) {
                                out.violation = Some(viol(format!("reply-invalid-under-load|{}", e), format!("client {} request {} ({}): the reply to the retransmitted copy fails strict verification: {}", c, k, proto.name(), e)));
                                return out;
                            }
                            out.done += 1;
                        }
                        Err(_) => retransmitting = false,
                    }
                }
                // closed loop: nothing else may be queued for us
                sock.set_nonblocking(true).unwrap();
                if let Ok((len, _)) = sock.recv_from(&mut buf) {
                    out.violation = Some(viol("second-datagram-for-one-request", format!("client {} request {}: an extra datagram of {} bytes arrived", c, k, len)));
                    return out;
                }
                if r.think_us > 0 {
                    std::thread::sleep(Duration::from_micros(r.think_us as u64));
                }
            }
            // final drain
            std::thread::sleep(Duration::from_millis(100));
            sock.set_nonblocking(true).unwrap();
            if let Ok((len, _)) = sock.recv_from(&mut buf) {
                out.violation = Some(viol("second-datagram-for-one-request", format!("client {}: a stray datagram of {} bytes arrived after the round", c, len)));
            }
            out
        }));
    }
    // disturbances while the clients run
    let round_over = Arc::new(AtomicBool::new(false));
    let noise_thread = if r.noise {
        let over = round_over.clone();
        Some(std::thread::spawn(move || {
            let mut sent = 0u64;
            if let Some(raw) = crate::srvlab::Port0Sender::new() {
                while !over.load(Ordering::Relaxed) {
                    sent += 1;
                    let proto = if sent % 2 == 0 { Proto::Classic } else { Proto::Ietf };
                    // never pile up: the noise pauses while more than ~25 datagrams wait at the server
                    if udp_rx_queue_for_port(port) < 60_000 {
                        raw.send(addr, &fresh_request(proto, b"c18-noise", sent ^ (round_no << 40)));
                    }
                    std::thread::sleep(Duration::from_millis(2));
                }
            }
            sent
        }))
    } else {
        None
    };
    // (while the server is stopped everything queues up: only when all of it fits one worker's receive buffer)
    if r.pause && n_clients <= 48 {
        std::thread::sleep(Duration::from_millis(20));
        s.signal(libc::SIGSTOP);
        std::thread::sleep(Duration::from_millis(30));
        s.signal(libc::SIGCONT);
    }
    let mut keys = HashSet::new();
    let mut first_v = None;
    let mut done = 0;
    let mut outliers: Vec<(u128, String)> = vec![];
    for h in handles {
        let o = h.join().unwrap();
        done += o.done;
        keys.extend(o.keys);
        outliers.extend(o.clock_outliers);
        if let Some(m) = o.inconclusive {
            // datagrams lost in the kernel: this round is a sample that cannot be judged (counted, not a verdict)
            ctx.note(format!("C18 round not judged: {}", m));
            ctx.class("c18:round-not-judged-kernel-drops");
        }
        if first_v.is_none() {
            first_v = o.violation;
        }
    }
    round_over.store(true, Ordering::Relaxed);
    if let Some(h) = noise_thread {
        if h.join().unwrap_or(0) > 0 {
            ctx.class("c18:round-with-unanswerable-noise");
        }
    }
    if r.pause {
        ctx.class("c18:round-with-stop-continue");
    }
    ctx.evals(done);
    if let Some(v) = first_v {
        return ctx.fail(v.sig, format!("workers={} clients={} mix={}{}{}: {}", r.workers, n_clients, r.mix, if r.pause { " stop/continue" } else { "" }, if r.noise { " with unanswerable noise" } else { "" }, v.what));
    }
    // midpoints outside [send, receive]: only meaningful if the realtime clock was not stepped during the round
    // (compared against the monotonic clock), and only when it happens repeatedly
    let mono = round_mono.elapsed().as_nanos() as i128;
    let real = std::time::SystemTime::now().duration_since(round_real).map(|d| d.as_nanos() as i128).unwrap_or(-1);
    let stepped = real < 0 || (real - mono).abs() > 1_000_000;
    if outliers.len() >= 3 && !stepped {
        outliers.sort_by(|a, b| b.0.cmp(&a.0));
        return ctx.fail(
            "midpoint-outside-send-receive-window-under-load",
            format!("workers={} clients={}: {} of {} replies state a midpoint outside the interval between sending the request and receiving the reply (same host clock, 2 ms tolerance, clock not stepped); worst: {}", r.workers, n_clients, outliers.len(), done, outliers[0].1),
        );
    }
    if stepped && !outliers.is_empty() {
        ctx.note("realtime clock stepped during a C18 round; midpoint window not judged".to_string());
    }
    let n = r.workers as usize;
    let names = s.thread_names();
    let live = (0..n).filter(|i| names.contains(&format!("worker-{}", i))).count();
    if !s.alive() || live != n {
        return ctx.fail("worker-died-under-load", format!("workers={}: {} alive after the round (process alive {}); output tail: {}", n, live, s.alive(), truncate(&s.output().lines().rev().take(3).collect::<Vec<_>>().join(" | "), 400)));
    }
    if s.output().contains("panicked") {
        return ctx.fail("panic-text-under-load", truncate(&s.output().lines().filter(|l| l.contains("panicked")).take(2).collect::<Vec<_>>().join(" | "), 400));
    }
    ctx.class(&format!("c18:workers={}:clients={}:keys-seen={}", n, if n_clients == 1 { "1" } else if n_clients <= 8 { "2-8" } else { "9-64" }, if keys.len() >= 2 { ">=2" } else { "1" }));
    if n >= 2 && n_clients >= 2 && keys.len() >= 2 {
        ctx.nontrivial(&(r.workers, r.clients, r.mix, r.reqs, r.think_us, r.shared_nonces, round_no));
    }
    Ok(())
}

#[derive(Debug, Clone, Serialize, Deserialize)]
pub struct Campaign {
    pub rounds: Vec<Round>,
}

fn check_campaign(ctx: &mut Ctx, c: &Campaign) -> Res {
    if c.rounds.is_empty() {
        return Ok(());
    }
    let r0 = &c.rounds[0];
    let cfg = SrvCfg { seed_hex: GOOD_SEED.into(), workers: Some(r0.workers as u64), batch_size: Some(r0.batch_size as u32), client_stats: r0.stats, status_interval: Some(1), ..Default::default() };
    let mut s = match ServerProc::start(&cfg) {
        Ok(s) => s,
        Err(e) => {
            ctx.inconclusive(format!("proclab: {}", e));
            return Ok(());
        }
    };
    if let Err(e) = s.wait_ready(Duration::from_secs(10)) {
        ctx.inconclusive(format!("C18: server not ready: {}", truncate(&e, 300)));
        return Ok(());
    }
    std::thread::sleep(Duration::from_millis(150));
    // every campaign starts with two full-house rounds: 64 concurrent clients of ONE protocol (deep batches of up to 64
    // same-protocol requests per worker), classic then IETF
    let mut rounds: Vec<Round> = vec![];
    if c.rounds.len() >= 2 {
        for mix in [0u8, 1] {
            rounds.push(Round { workers: r0.workers, stats: r0.stats, clients: 64, mix, reqs: 40, think_us: 0, shared_nonces: false, batch_size: r0.batch_size, retransmit: false, pause: false, noise: false });
        }
        // a round during which the server is stopped and continued and unanswerable requests keep arriving
        rounds.push(Round { workers: r0.workers, stats: r0.stats, clients: 16, mix: 3, reqs: 60, think_us: 0, shared_nonces: false, batch_size: r0.batch_size, retransmit: false, pause: true, noise: true });
        // and one round of 32 impatient clients (every third request sent twice), protocols alternating per request
        rounds.push(Round { workers: r0.workers, stats: r0.stats, clients: 32, mix: 3, reqs: 40, think_us: 0, shared_nonces: false, batch_size: r0.batch_size, retransmit: true, pause: false, noise: false });
    }
    rounds.extend(c.rounds.iter().cloned());
    for (i, r) in rounds.iter().enumerate() {
        let mut r = r.clone();
        r.workers = r0.workers;
        run_round(ctx, &mut s, &r, i as u64)?;
    }
    s.signal(libc::SIGTERM);
    s.wait_exit(Duration::from_secs(5));
    Ok(())
}

fn round_strategy(workers: u8) -> impl Strategy<Value = Round> {
    (prop::bool::weighted(0.15), prop_oneof![1 => Just(1u8), 3 => 2u8..=16, 2 => 17u8..=64], 0u8..4, prop_oneof![3 => 20u16..=80, 1 => 80u16..=300], prop_oneof![2 => Just(0u16), 1 => 0u16..=2000], any::<bool>(), prop::sample::select(vec![1u8, 2, 8, 64]), prop::bool::weighted(0.35), prop::bool::weighted(0.2), prop::bool::weighted(0.2))
        .prop_map(move |(stats, clients, mix, reqs, think_us, shared_nonces, batch_size, retransmit, pause, noise)| Round { workers, stats, clients, mix, reqs, think_us, shared_nonces, batch_size, retransmit, pause, noise })
}

pub fn run_c18(ctx: &mut Ctx) -> Vec<Violation> {
    let t = ctx.tier;
    let mut out = vec![];
    // each shard takes one worker count; several campaigns (servers) of several rounds each
    let wc = [1u8, 2, 4, 8, 16][(ctx.shard % 5) as usize];
    let camp = proptest::collection::vec(round_strategy(wc), t.pick(2..=3, 4..=8)).prop_map(|rounds| Campaign { rounds });
    // run_prop shares `cases` over shards; we want a fixed number per shard
    let per_shard = t.pick(3u64, 40u64);
    out.extend(run_prop(ctx, &format!("campaign-w{}", wc), per_shard * ctx.nshards as u64, 6, camp, |ctx, c| {
        ctx.sample("campaign", 1, &c.rounds.iter().map(|r| (r.workers, r.clients, r.mix, r.reqs)).collect::<Vec<_>>());
        check_campaign(ctx, c)
    }));
    out
}

/// C11's use of the same machinery: under bursts from many concurrent clients every classic reply must state a
/// microsecond midpoint inside [request sent, reply received] (the clock is read when the batch is signed)
pub fn c11_burst_part(ctx: &mut Ctx) -> Vec<Violation> {
    let t = ctx.tier;
    let plans: Vec<Campaign> = [(1u8, 2u8, 24u8), (1, 8, 48), (2, 1, 16), (4, 64, 64)]
        .iter()
        .map(|(workers, batch_size, clients)| Campaign { rounds: vec![Round { workers: *workers, stats: false, clients: *clients, mix: 0, reqs: t.pick(120, 600), think_us: 0, shared_nonces: false, batch_size: *batch_size, retransmit: false, pause: false, noise: false }] })
        .collect();
    run_enum(ctx, "burst-real-binary", plans.len() as u64, |i| plans[i as usize].clone(), |ctx, c| check_campaign(ctx, c))
}

/// C02's use of the same machinery: "every response verifies" also when several workers sign at the same moment
/// (the in-process lab is single-threaded and cannot show what concurrent workers do to each other)
pub fn c02_process_part(ctx: &mut Ctx) -> Vec<Violation> {
    let t = ctx.tier;
    let plans: Vec<Campaign> = [(6u8, 64u8, 24u8, 3u8), (4, 8, 32, 0), (8, 2, 16, 1), (16, 64, 48, 3)]
        .iter()
        .map(|(workers, batch_size, clients, mix)| Campaign { rounds: vec![Round { workers: *workers, stats: false, clients: *clients, mix: *mix, reqs: t.pick(150, 1_500), think_us: 0, shared_nonces: false, batch_size: *batch_size, retransmit: false, pause: false, noise: false }] })
        .collect();
    run_enum(ctx, "multi-worker-real-binary", plans.len() as u64, |i| plans[i as usize].clone(), |ctx, c| check_campaign(ctx, c))
}

pub fn replay_c18(ctx: &mut Ctx, _sub: &str, case: &Value) -> Res {
    // schedules are not replayable: re-run the plan up to 20 times
    let c: Campaign = serde_json::from_value(case.clone()).map_err(|e| viol("bad-replay-file", e.to_string()))?;
    // `rv replay` (strict) insists; the regression tier of every run tries each saved plan twice
    for _ in 0..(if ctx.strict { 20 } else { 2 }) {
        check_campaign(ctx, &c)?;
    }
    Ok(())
}

// =========================================================================================== C19

#[derive(Debug, Clone, Serialize, Deserialize, PartialEq, Eq, Hash)]
pub enum Load {
    Idle,
    /// k closed-loop clients
    Closed(u8),
    /// k open-loop sender threads; kind 0 valid, 1 invalid, 2 mixed
    Flood(u8, u8),
    /// k closed-loop clients for 300 ms, then the load stops and the server idles for `delay_ms` before the signal
    ThenIdle(u8),
}

#[derive(Debug, Clone, Serialize, Deserialize, PartialEq, Eq, Hash)]
pub struct SignalPlan {
    pub workers: u8,
    pub stats: bool,
    pub term: bool,
    pub load: Load,
    pub delay_ms: u16,
    /// status_interval as written (None = left at its default of 600 s; the statistics timer fires every tenth of it)
    #[serde(default)]
    pub status_interval: Option<u16>,
    /// the delay counts from the FIRST response of the server (other workers may still be starting) instead of from
    /// the moment all worker threads exist
    #[serde(default)]
    pub early: bool,
    /// how the server was started: 0 = default signal dispositions; 1 = SIGHUP inherited as ignored (nohup);
    /// 2 = SIGINT and SIGQUIT inherited as ignored (background job of a non-interactive shell; only SIGTERM plans)
    #[serde(default)]
    pub started_by: u8,
    /// > 0: a second signal of the same kind follows the first after this many milliseconds
    #[serde(default)]
    pub second_after_ms: u8,
    /// the server has a health-check port; before the signal its descriptor limit is lowered to what it has open and a
    /// health connection is made (which it cannot accept: EMFILE)
    #[serde(default)]
    pub fd_exhausted: bool,
}

fn check_signal(ctx: &mut Ctx, p: &SignalPlan) -> Res {
    ctx.eval();
    // at most two flood plans at a time on this host (each keeps up to ~10 threads busy)
    let _slot = if matches!(p.load, Load::Flood(..)) { host_slot("flood", 2, Duration::from_secs(180)) } else { None };
    let inherit_ignored = match p.started_by % 3 {
        1 => vec![libc::SIGHUP],
        2 if p.term => vec![libc::SIGINT, libc::SIGQUIT],
        _ => vec![],
    };
    let cfg = SrvCfg { seed_hex: GOOD_SEED.into(), workers: Some(p.workers as u64), client_stats: p.stats, status_interval: p.status_interval.map(|x| x as u32), inherit_ignored, health: p.fd_exhausted && !p.stats, ..Default::default() };
    let mut s = match ServerProc::start(&cfg) {
        Ok(s) => s,
        Err(e) => {
            ctx.inconclusive(format!("proclab: {}", e));
            return Ok(());
        }
    };
    if let Err(e) = if p.early { s.wait_first_response(Duration::from_secs(10)) } else { s.wait_ready(Duration::from_secs(10)) } {
        ctx.inconclusive(format!("C19: server never served: {}", truncate(&e, 300)));
        return Ok(());
    }
    // wait for all workers so that the signal does not race start-up (the property starts 'once the server is serving')
    let t_end = Instant::now() + Duration::from_secs(if p.early { 0 } else { 3 });
    while !p.early && s.thread_names().iter().filter(|n| n.starts_with("worker-")).count() < p.workers as usize && Instant::now() < t_end {
        std::thread::sleep(Duration::from_millis(10));
    }
    let addr = s.addr();
    let pk = s.pk.clone();
    let stop = Arc::new(AtomicBool::new(false));
    let last_reply_ns = Arc::new(AtomicU64::new(0));
    let bad_reply: Arc<std::sync::Mutex<Option<String>>> = Arc::new(std::sync::Mutex::new(None));
    let replies = Arc::new(AtomicU64::new(0));
    let t0 = Instant::now();
    let mut handles = vec![];
    let mut flood_saturated = false;
    match &p.load {
        Load::Idle => {}
        Load::Closed(k) | Load::ThenIdle(k) => {
            for c in 0..(*k).max(1) {
                let (stop, last, bad, replies, pk) = (stop.clone(), last_reply_ns.clone(), bad_reply.clone(), replies.clone(), pk.clone());
                handles.push(std::thread::spawn(move || {
                    let sock = UdpSocket::bind("127.0.0.1:0").unwrap();
                    sock.set_read_timeout(Some(Duration::from_millis(300))).unwrap();
                    let mut buf = [0u8; 4096];
                    let mut n = 0u64;
                    // requests sent and not yet answered (a reply may arrive after our 300 ms patience)
                    let mut outstanding: Vec<(Proto, Vec<u8>)> = vec![];
                    while !stop.load(Ordering::Relaxed) {
                        n += 1;
                        let proto = if (n + c as u64) % 2 == 0 { Proto::Classic } else { Proto::Ietf };
                        let req = fresh_request(proto, b"c19", (c as u64) << 40 | n);
                        if sock.send_to(&req, addr).is_err() {
                            break;
                        }
                        outstanding.push((proto, req));
                        if outstanding.len() > 64 {
                            outstanding.remove(0);
                        }
                        if let Ok((len, _)) = sock.recv_from(&mut buf) {
                            last.store(t0.elapsed().as_nanos() as u64, Ordering::Relaxed);
                            replies.fetch_add(1, Ordering::Relaxed);
                            let mut last_err = String::new();
                            let hit = outstanding.iter().position(|(p, r)| match verify_strict(*p, r, &buf[..len], &pk) {
                                Ok(_) => true,
                                Err(e) => {
                                    last_err = e;
                                    false
                                }
                            });
                            match hit {
                                Some(i) => {
                                    outstanding.remove(i);
                                }
                                None => {
                                    *bad.lock().unwrap() = Some(format!("{} ({} bytes)", last_err, len));
                                    break;
                                }
                            }
                        }
                    }
                }));
            }
        }
        Load::Flood(k, kind) => {
            let kind = *kind;
            // one open-loop sender per call; the first one also gets a reader thread that verifies replies
            let spawn_flooder = |c: u8, with_reader: bool| {
                let (stop, bad, replies, pk) = (stop.clone(), bad_reply.clone(), replies.clone(), pk.clone());
                std::thread::spawn(move || {
                    let sock = UdpSocket::bind("127.0.0.1:0").unwrap();
                    sock.set_nonblocking(true).unwrap();
                    crate::srvlab::set_rcvbuf_pub(&sock, 8 << 20);
                    let valid = fresh_request(Proto::Classic, b"c19f", c as u64);
                    // invalid datagrams: junk that is rejected at the first header word, or requests that parse all the
                    // way and fail late (classic request with a 60-byte nonce, IETF request naming another server)
                    // kind 6: VALID requests from UDP source port 0 — accepted, signed, and the reply cannot be sent
                    let raw = if kind % 7 == 6 { crate::srvlab::Port0Sender::new() } else { None };
                    let invalid = match kind % 7 {
                        5 => {
                            // every known tag once (SIG..PAD), NONC of the right length, SRV of another server
                            let mut m = Msg::new();
                            for t in crate::refcodec::KNOWN {
                                let v = if t == crate::refcodec::NONC { vec![0x3eu8; 32] } else if t == crate::refcodec::VER { VER_DRAFT13.to_le_bytes().to_vec() } else if t == crate::refcodec::SRV { vec![0x78u8; 32] } else { vec![0x11u8; 4] };
                                m.fields.push((t, v));
                            }
                            let pad = 1012 - m.encode().len();
                            m.fields.last_mut().unwrap().1.extend(std::iter::repeat(0u8).take(pad));
                            m.encode_framed()
                        }
                        3 => build_request(Proto::Classic, &[0x3cu8; 60], 1024, &[], None),
                        4 => build_request(Proto::Ietf, &[0x3du8; 32], 1024, &[VER_DRAFT13], Some(&[0x77u8; 32])),
                        _ => vec![0x55u8; 1024],
                    };
                    let mut n = 0u64;
                    // a reader thread on the same socket verifies every reply it can get hold of (replies beyond its rate
                    // are dropped by the kernel at our socket)
                    let reader = if with_reader {
                        let rsock = sock.try_clone().unwrap();
                        let (rstop, rbad, rreplies, rpk, rvalid) = (stop.clone(), bad.clone(), replies.clone(), pk.clone(), valid.clone());
                        Some(std::thread::spawn(move || {
                            let mut fv = FastVerifier::new(&rpk);
                            let mut buf = [0u8; 4096];
                            let mut idle = 0;
                            // keep reading for a short while after the flood stops: the last replies matter most
                            while idle < 200 {
                                match rsock.recv_from(&mut buf) {
                                    Ok((len, _)) => {
                                        idle = 0;
                                        rreplies.fetch_add(1, Ordering::Relaxed);
                                        if let Err(e) = fv.verify(Proto::Classic, &rvalid, &buf[..len]) {
                                            *rbad.lock().unwrap() = Some(format!("{} ({} bytes, under flood)", e, len));
                                            break;
                                        }
                                    }
                                    Err(_) => {
                                        if rstop.load(Ordering::Relaxed) {
                                            idle += 1;
                                        }
                                        std::thread::sleep(Duration::from_micros(500));
                                    }
                                }
                            }
                        }))
                    } else {
                        None
                    };
                    while !stop.load(Ordering::Relaxed) {
                        n += 1;
                        let d = match kind % 7 {
                            0 | 6 => &valid,
                            2 => if n % 2 == 0 { &valid } else { &invalid },
                            _ => &invalid,
                        };
                        match &raw {
                            Some(r) => {
                                r.send(addr, d);
                            }
                            None => {
                                let _ = sock.send_to(d, addr);
                            }
                        }
                    }
                    if let Some(r) = reader {
                        let _ = r.join();
                    }
                })
            };
            let k = (*k).max(1);
            for c in 0..k {
                handles.push(spawn_flooder(c, c == 0));
            }
            // make it a flood in fact: wait until the server's receive queue has been non-empty for 5 consecutive samples,
            // adding senders (up to 16) while it keeps draining
            let t_sat = Instant::now();
            let (mut streak, mut extra) = (0u32, 0u8);
            while t_sat.elapsed() < Duration::from_millis(1500) && streak < 5 {
                std::thread::sleep(Duration::from_millis(20));
                if udp_rx_queue_for_port(s.port) > 0 {
                    streak += 1;
                } else {
                    streak = 0;
                    if t_sat.elapsed() > Duration::from_millis(250 * (extra as u64 + 1)) && k + extra < 16 {
                        handles.push(spawn_flooder(k + extra, false));
                        extra += 1;
                    }
                }
            }
            flood_saturated = streak >= 5;
        }
    }
    if let Load::ThenIdle(_) = p.load {
        std::thread::sleep(Duration::from_millis(300));
        stop.store(true, Ordering::Relaxed);
    }
    std::thread::sleep(Duration::from_millis(p.delay_ms as u64));
    // how much is queued at the server right now (measures whether a flood really keeps the queue non-empty)
    let rxq = (0..3).map(|_| udp_rx_queue_for_port(s.port)).max().unwrap_or(0);
    let mut pending_health: Vec<TcpStream> = vec![];
    // (not with the statistics reporter on: it opens files of its own, which is not what this plan is about)
    if p.fd_exhausted && !p.stats {
        // only once start-up is over: every worker has its sockets and poll instance (descriptor count stable for
        // 200 ms), otherwise the lowered limit would hit a worker that is still being set up
        let mut stable = 0;
        let mut last = s.fd_count();
        let t_stable = Instant::now();
        while stable < 10 && t_stable.elapsed() < Duration::from_secs(3) {
            std::thread::sleep(Duration::from_millis(20));
            let now = s.fd_count();
            if now == last {
                stable += 1;
            } else {
                stable = 0;
                last = now;
            }
        }
        if let (Some(hc), Some(open)) = (s.hc_port, s.fd_count()) {
            if stable >= 10 && s.set_nofile_soft(open as u64) {
                for _ in 0..p.workers.max(1) as usize * 2 {
                    if let Ok(st) = TcpStream::connect_timeout(&format!("127.0.0.1:{}", hc).parse().unwrap(), Duration::from_secs(1)) {
                        pending_health.push(st);
                    }
                }
                std::thread::sleep(Duration::from_millis(60));
                ctx.class("c19:descriptor-limit-reached-with-health-connections-pending");
            }
        }
    }
    let sig_at = t0.elapsed().as_nanos() as u64;
    s.signal(if p.term { libc::SIGTERM } else { libc::SIGINT });
    let t_sig = Instant::now();
    if p.second_after_ms > 0 {
        std::thread::sleep(Duration::from_millis(p.second_after_ms as u64));
        s.signal(if p.term { libc::SIGTERM } else { libc::SIGINT });
        ctx.class("c19:second-signal");
    }
    let status = s.wait_exit(Duration::from_secs(5));
    let reaction = t_sig.elapsed();
    let mut late_exit = None;
    if status.is_none() {
        // separate "wedged by load" from "never exits": stop the load and give it 2 more seconds
        stop.store(true, Ordering::Relaxed);
        late_exit = s.wait_exit(Duration::from_secs(2));
    }
    stop.store(true, Ordering::Relaxed);
    drop(pending_health);
    for h in handles {
        let _ = h.join();
    }
    let sigs = if p.term { "SIGTERM" } else { "SIGINT" };
    let load_s = match &p.load {
        Load::Idle => "idle".to_string(),
        Load::Closed(k) => format!("closed-loop x{}", k),
        Load::ThenIdle(k) => format!("closed-loop x{} for 300 ms, then idle", k),
        Load::Flood(k, kind) => format!("flood x{} ({})", k, ["valid", "junk", "mixed", "requests with a wrong-length nonce", "requests for another server", "requests for another server carrying every known tag", "valid requests from source port 0 (replies cannot be sent)"][(*kind % 7) as usize]),
    };
    let tag = format!("workers={} stats={} status_interval={:?} {} load={} delay={}ms", p.workers, p.stats, p.status_interval, sigs, load_s, p.delay_ms);
    let load_class = match &p.load {
        Load::Idle => "idle",
        Load::Closed(_) => "closed",
        Load::ThenIdle(_) => "then-idle",
        Load::Flood(..) => "flood",
    };
    match status {
        None => {
            let after = match late_exit {
                Some(st) => format!("exits-once-load-stops(status {:?})", st.code()),
                None => "still-running-2s-after-load-stopped".to_string(),
            };
            return ctx.fail(
                format!("no-exit-within-5s|{}|{}", load_class, if late_exit.is_some() { "exits-once-load-stops" } else { "never" }),
                format!("{}: the server was still running 5 s after the signal; {}", tag, after),
            );
        }
        Some(st) => {
            if st.code() != Some(0) {
                return ctx.fail(format!("exit-status-not-0|{}", load_class), format!("{}: exit status {:?} (signal {:?}); output tail: {}", tag, st.code(), std::os::unix::process::ExitStatusExt::signal(&st), truncate(&s.output().lines().rev().take(3).collect::<Vec<_>>().join(" | "), 400)));
            }
        }
    }
    let out = s.final_output();
    if out.contains("panicked") {
        return ctx.fail(format!("panic-on-shutdown|{}", load_class), format!("{}: {}", tag, truncate(&out.lines().filter(|l| l.contains("panicked")).take(2).collect::<Vec<_>>().join(" | "), 400)));
    }
    if let Some(b) = bad_reply.lock().unwrap().clone() {
        return ctx.fail("incomplete-or-invalid-reply-before-exit", format!("{}: a reply received around shutdown fails verification: {}", tag, b));
    }
    let last = last_reply_ns.load(Ordering::Relaxed);
    let in_flight = p.load != Load::Idle && ((matches!(p.load, Load::Flood(..)) && rxq > 0) || (last > 0 && sig_at.saturating_sub(last) < 5_000_000) || last > sig_at);
    if matches!(p.load, Load::Flood(..)) {
        ctx.class(&format!("c19:flood:queue-at-signal={}:{}", if rxq == 0 { "empty" } else if rxq < 100_000 { "<100KB" } else { ">=100KB" }, if flood_saturated { "sustained-backlog" } else { "no-sustained-backlog" }));
    }
    ctx.class(&format!("c19:{}:{}:workers={}:stats={}:{}", load_class, sigs, p.workers, p.stats, if reaction < Duration::from_millis(200) { "exit<200ms" } else if reaction < Duration::from_millis(1500) { "exit<1.5s" } else { "exit<5s" }));
    let long_idle = matches!(p.load, Load::Idle | Load::ThenIdle(_)) && p.delay_ms >= 2_000;
    if long_idle {
        ctx.class(&format!("c19:idle-for-{}s-before-signal", p.delay_ms / 1000));
    }
    if in_flight || long_idle {
        ctx.nontrivial(&(p.workers, p.stats, p.term, format!("{:?}", p.load), p.delay_ms / 10));
    }
    Ok(())
}

fn c19_grid() -> Vec<SignalPlan> {
    let mut out = vec![];
    let delays = [0u16, 3, 50, 100, 150, 300];
    let mut i = 0;
    for workers in [1u8, 4, 16] {
        for term in [false, true] {
            for load in [Load::Idle, Load::Closed(4), Load::Flood(4, 0), Load::Flood(3, 1), Load::Closed(16), Load::Flood(6, 2), Load::Flood(6, 3), Load::Flood(5, 4)] {
                i += 1;
                out.push(SignalPlan { workers, stats: i % 5 == 0, term, load, delay_ms: delays[i % delays.len()], status_interval: [None, Some(10), Some(1)][i % 3], early: false, started_by: 0, second_after_ms: 0, fd_exhausted: false });
            }
        }
    }
    // signal after the server has been idle for a while (seconds since start-up / since the last request)
    out.push(SignalPlan { workers: 1, stats: false, term: true, load: Load::Idle, delay_ms: 3_600, status_interval: None, early: false, started_by: 0, second_after_ms: 0, fd_exhausted: false });
    out.push(SignalPlan { workers: 4, stats: false, term: false, load: Load::ThenIdle(3), delay_ms: 4_200, status_interval: None, early: false, started_by: 0, second_after_ms: 0, fd_exhausted: false });
    out.push(SignalPlan { workers: 4, stats: true, term: true, load: Load::Idle, delay_ms: 6_500, status_interval: Some(600), early: false, started_by: 0, second_after_ms: 0, fd_exhausted: false });
    // floods made only of datagrams that are expensive to reject, against a single worker (every sender lands on it)
    for (k, (term, delay_ms, stats)) in [(true, 100u16, false), (false, 30, false), (true, 250, true)].iter().enumerate() {
        out.push(SignalPlan { workers: 1, stats: *stats, term: *term, load: Load::Flood(8, 5), delay_ms: *delay_ms, status_interval: [None, Some(1), Some(10)][k], early: false, started_by: 0, second_after_ms: 0, fd_exhausted: false });
    }
    out.push(SignalPlan { workers: 4, stats: false, term: true, load: Load::Flood(12, 5), delay_ms: 60, status_interval: None, early: false, started_by: 0, second_after_ms: 0, fd_exhausted: false });
    // floods of valid requests whose replies cannot be sent
    out.push(SignalPlan { workers: 1, stats: false, term: true, load: Load::Flood(6, 6), delay_ms: 150, status_interval: None, early: false, started_by: 0, second_after_ms: 0, fd_exhausted: false });
    out.push(SignalPlan { workers: 4, stats: true, term: false, load: Load::Flood(6, 6), delay_ms: 80, status_interval: Some(1), early: false, started_by: 0, second_after_ms: 0, fd_exhausted: false });
    // the server was started under nohup (SIGHUP ignored) or as a background job of a script (SIGINT, SIGQUIT ignored)
    for (k, (workers, term, started_by, load)) in [(1u8, true, 1u8, Load::Idle), (4, false, 1, Load::Closed(4)), (4, true, 2, Load::Idle), (1, true, 2, Load::Closed(2)), (16, false, 1, Load::Idle)].into_iter().enumerate() {
        out.push(SignalPlan { workers, stats: k == 3, term, load, delay_ms: 40 * k as u16, status_interval: None, early: false, started_by, second_after_ms: 0, fd_exhausted: false });
    }
    // two signals in quick succession (an impatient operator, or a supervisor that sends TERM to the process group twice)
    for (k, gap) in [1u8, 5, 20, 60, 100].iter().enumerate() {
        out.push(SignalPlan { workers: [1u8, 4][k % 2], stats: true, term: k % 2 == 0, load: Load::Idle, delay_ms: 50, status_interval: None, early: false, started_by: 0, second_after_ms: *gap, fd_exhausted: false });
    }
    out.push(SignalPlan { workers: 4, stats: false, term: true, load: Load::Closed(4), delay_ms: 50, status_interval: None, early: false, started_by: 0, second_after_ms: 10, fd_exhausted: false });
    // the process is at its descriptor limit and health connections are pending when the signal comes
    for (workers, term) in [(1u8, true), (1, false), (4, true)] {
        out.push(SignalPlan { workers, stats: false, term, load: Load::Idle, delay_ms: 30, status_interval: None, early: false, started_by: 0, second_after_ms: 0, fd_exhausted: true });
    }
    // signal right after the first response, while the other workers of a 16-worker server are still starting
    for (k, delay_ms) in [0u16, 1, 2, 5, 10, 20, 40, 80].iter().enumerate() {
        out.push(SignalPlan { workers: 16, stats: k % 4 == 3, term: k % 2 == 0, load: Load::Idle, delay_ms: *delay_ms, status_interval: None, early: true, started_by: 0, second_after_ms: 0, fd_exhausted: false });
    }
    out
}

fn c19_random() -> impl Strategy<Value = SignalPlan> {
    let load = prop_oneof![1 => Just(Load::Idle), 3 => (1u8..=24).prop_map(Load::Closed), 3 => (2u8..=10, 0u8..7).prop_map(|(k, kind)| Load::Flood(k, kind)), 1 => (1u8..=8).prop_map(Load::ThenIdle)];
    (prop::sample::select(vec![1u8, 4, 16]), prop::bool::weighted(0.2), any::<bool>(), load, prop_oneof![2 => 0u16..=300, 1 => 90u16..=110, 1 => Just(0u16), 1 => 950u16..=1100], 0u16..=12_000, prop::sample::select(vec![None, Some(600u16), Some(10), Some(1)])).prop_map(|(workers, stats, term, load, delay_ms, long, status_interval)| {
        // idle shapes also sweep long idle periods (most of them short, some up to 12 s)
        let delay_ms = if matches!(load, Load::Idle | Load::ThenIdle(_)) && long % 3 == 0 { long } else { delay_ms };
        let early = matches!(load, Load::Idle) && delay_ms <= 100 && long % 2 == 0;
        SignalPlan { workers, stats, term, load, delay_ms, status_interval, early, started_by: (long % 7 == 1) as u8 + 2 * (long % 7 == 2) as u8, second_after_ms: if long % 5 == 0 { (long % 120) as u8 } else { 0 }, fd_exhausted: long % 11 == 3 }
    })
}

pub fn run_c19(ctx: &mut Ctx) -> Vec<Violation> {
    let t = ctx.tier;
    let mut out = vec![];
    let grid = c19_grid();
    let v = run_enum(ctx, "grid", grid.len() as u64, |i| grid[i as usize].clone(), |ctx, p| check_signal(ctx, p));
    if ctx.shard == 0 {
        ctx.sample("grid", 3, &grid[2]);
        ctx.sample("grid", 3, &grid[7]);
    }
    out.extend(v);
    out.extend(run_prop(ctx, "random", t.pick(32, 1_200), 6, c19_random(), |ctx, p| {
        ctx.sample("random", 2, p);
        check_signal(ctx, p)
    }));
    out
}

pub fn replay_c19(ctx: &mut Ctx, _sub: &str, case: &Value) -> Res {
    let p: SignalPlan = serde_json::from_value(case.clone()).map_err(|e| viol("bad-replay-file", e.to_string()))?;
    for _ in 0..(if ctx.strict { 10 } else { 1 }) {
        check_signal(ctx, &p)?;
    }
    Ok(())
}

// =========================================================================================== C10 (real binary)

#[derive(Debug, Clone, Serialize, Deserialize)]
pub struct IdentityRun {
    /// the seed as written in the configuration (64 hex characters; may be all decimal digits or upper case)
    pub seed_text: String,
    pub via_env: bool,
    pub workers: u8,
    pub restarts: u8,
    /// index into IDENTITY_ZONES: the TZ the server runs under (its identity and certificates do not depend on it)
    #[serde(default)]
    pub tz: u8,
}

/// none, and zones whose local calendar date differs from the UTC date for most of the day (POSIX sign: AAA-14 = UTC+14)
pub const IDENTITY_ZONES: [&str; 6] = ["", "AAA-23:59", "AAA23:59", "AAA-14", "AAA12", "Pacific/Kiritimati"];

fn check_identity_run(ctx: &mut Ctx, r: &IdentityRun) -> Res {
    let seed = rc::unhex(&r.seed_text);
    let pk = RefKey::from_seed(&seed).public();
    let srv = srv_value(&pk);
    let n = r.workers.max(1) as usize;
    for start in 0..r.restarts.max(1) {
        ctx.eval();
        let zone = IDENTITY_ZONES[r.tz as usize % IDENTITY_ZONES.len()];
        let cfg = SrvCfg { seed_hex: r.seed_text.clone(), workers: Some(n as u64), via_env: r.via_env, env_extra: if zone.is_empty() { vec![] } else { vec![("TZ".to_string(), zone.to_string())] }, ..Default::default() };
        let mut s = match ServerProc::start(&cfg) {
            Ok(s) => s,
            Err(e) => {
                ctx.inconclusive(format!("proclab: {}", e));
                return Ok(());
            }
        };
        if let Err(e) = s.wait_ready(Duration::from_secs(10)) {
            return ctx.fail("server-not-serving-with-valid-seed", format!("seed {:?} ({} source): {}", r.seed_text, if r.via_env { "ENV" } else { "file" }, truncate(&e, 300)));
        }
        std::thread::sleep(Duration::from_millis(100));
        let out = s.output();
        let announced: Vec<&str> = out.lines().filter_map(|l| l.split("Long-term public key       : ").nth(1)).map(|x| x.trim()).collect();
        if announced.is_empty() {
            return Err(viol("positive-control-failed", "no 'Long-term public key' line in the server log"));
        }
        if let Some(a) = announced.iter().find(|a| **a != hex(&pk)) {
            return ctx.fail("announced-key-not-rfc8032-of-configured-seed", format!("seed written as {:?} ({} source, start {}): server announces {} but the RFC 8032 key of that seed is {}", r.seed_text, if r.via_env { "ENV" } else { "file" }, start, a, hex(&pk)));
        }
        // certificates of every worker, both protocols; SRV-bound IETF requests are answered
        let mut keys = HashSet::new();
        for k in 0..(24 * n) as u64 {
            let sock = UdpSocket::bind("127.0.0.1:0").unwrap();
            let proto = if k % 2 == 0 { Proto::Classic } else { Proto::Ietf };
            let nonce = sha512(&[b"c10p", &k.to_le_bytes(), &[start]])[..proto.nonce_len()].to_vec();
            let req = build_request(proto, &nonce, 1024, &[VER_DRAFT13], if proto == Proto::Ietf && k % 4 == 1 { Some(&srv) } else { None });
            match exchange(&sock, s.addr(), &req, Duration::from_secs(3)) {
                Some(reply) => match verify_strict(proto, &req, &reply, &pk) {
                    Ok(info) => {
                        super::identity::check_cert(ctx, proto, &info.cert, &pk, Some(info.midp))?;
                        keys.insert((proto, info.pubk));
                    }
                    Err(e) => return ctx.fail(format!("reply-does-not-verify-under-seed-key|{}", e), format!("seed {:?}: {} reply fails under the seed's RFC 8032 key: {}", r.seed_text, proto.name(), e)),
                },
                None => return ctx.fail("request-unanswered", format!("seed {:?}: {} request (SRV {}) unanswered", r.seed_text, proto.name(), k % 4 == 1)),
            }
        }
        ctx.class(&format!("c10:real-binary:{}:workers={}:certs={}", if r.via_env { "env" } else { "file" }, n, keys.len()));
        s.signal(libc::SIGTERM);
        s.wait_exit(Duration::from_secs(5));
    }
    ctx.nontrivial(&(&r.seed_text, r.via_env, r.workers, r.restarts));
    Ok(())
}

pub fn c10_process_part(ctx: &mut Ctx) -> Vec<Violation> {
    let t = ctx.tier;
    let seed_text = prop_oneof![
        3 => bytes_exact(32).prop_map(|h| hex(&h.0)),
        1 => bytes_exact(32).prop_map(|h| hex(&h.0).to_uppercase()),
        // only decimal digits: YAML types it as a number
        2 => "[0-9]{64}",
        // digits with one 'e': YAML types it as a float in exponent notation
        1 => ("[1-9][0-9]{20}", "[0-9]{42}").prop_map(|(a, b)| format!("{}e{}", a, b)),
    ];
    let strat = (seed_text, any::<bool>(), 1u8..=4, 1u8..=2, prop_oneof![1 => Just(0u8), 2 => 1u8..6]).prop_map(|(seed_text, via_env, workers, restarts, tz)| IdentityRun { seed_text, via_env, workers, restarts, tz });
    run_prop(ctx, "real-binary", t.pick(32, 480), 4, strat, |ctx, r| {
        ctx.sample("real-binary", 2, r);
        check_identity_run(ctx, r)
    })
}

pub fn c10_replay(ctx: &mut Ctx, case: &Value) -> Res {
    replay_case::<IdentityRun, _>(ctx, case, |ctx, r| check_identity_run(ctx, r))
}

// =========================================================================================== C20 (real binary)

#[derive(Debug, Clone, Serialize, Deserialize)]
pub struct LeakRun {
    pub seed: Hex,
    pub via_env: bool,
    /// index into secrets::CONFIG_VARIANTS (valid and invalid configurations whose error paths log)
    pub variant: u8,
    pub workers: u8,
}

fn check_leak_run(ctx: &mut Ctx, r: &LeakRun) -> Res {
    ctx.eval();
    let needles = super::secrets::Needles::new(&r.seed.0);
    let (vname, extra, seed_cut) = super::secrets::CONFIG_VARIANTS[r.variant as usize % super::secrets::CONFIG_VARIANTS.len()];
    let seed_hex = hex(&r.seed.0);
    let mut cfg = SrvCfg { seed_hex: match seed_cut { Some(n) => seed_hex[..n].to_string(), None => seed_hex.clone() }, workers: Some(r.workers.max(1) as u64), via_env: r.via_env, ..Default::default() };
    for (k, v) in extra {
        match *k {
            "num_workers" => cfg.workers = v.parse().ok(),
            _ => cfg.extra.push((k.to_string(), v.to_string())),
        }
    }
    // interface/port overrides must replace the generated ones: proclab appends extras, the loaders take the last value
    let mut s = match ServerProc::start(&cfg) {
        Ok(s) => s,
        Err(e) => {
            ctx.inconclusive(format!("proclab: {}", e));
            return Ok(());
        }
    };
    let valid = vname.starts_with("valid");
    if valid {
        if let Err(e) = s.wait_ready(Duration::from_secs(10)) {
            ctx.inconclusive(format!("C20: server not ready: {}", truncate(&e, 200)));
            return Ok(());
        }
        // some traffic: valid and invalid; scan the datagrams as well
        let sock = UdpSocket::bind("127.0.0.1:0").unwrap();
        for k in 0..12u64 {
            let proto = if k % 2 == 0 { Proto::Classic } else { Proto::Ietf };
            let req = fresh_request(proto, b"c20", k);
            if let Some(reply) = exchange(&sock, s.addr(), &req, Duration::from_secs(2)) {
                if let Some(w) = needles.find(&reply) {
                    return ctx.fail("secret-in-datagram", format!("real server reply contains {}", w));
                }
            }
            let _ = sock.send_to(&vec![0x41u8; 1024 + (k as usize % 3)], s.addr());
        }
        std::thread::sleep(Duration::from_millis(50));
        s.signal(libc::SIGTERM);
    }
    s.wait_exit(Duration::from_secs(5));
    let out = s.final_output();
    if let Some(w) = needles.find_text(out.as_bytes()) {
        let line = out.lines().find(|l| needles.find_text(l.as_bytes()).is_some()).unwrap_or("");
        return ctx.fail(format!("secret-in-server-output|{}", vname), format!("stdout/stderr of the real server ({} source, variant {}) contains {}: {:?}", if r.via_env { "ENV" } else { "file" }, vname, w, truncate(line, 300)));
    }
    if valid {
        // positive control: the Info log announces the public key
        let pk = hex(&RefKey::from_seed(&r.seed.0).public());
        if !out.contains(&pk) {
            return Err(viol("positive-control-failed", format!("public key {} not found in the server's log ({} bytes of output)", pk, out.len())));
        }
    } else if out.is_empty() {
        return Err(viol("positive-control-failed", "invalid configuration produced no output at all"));
    }
    ctx.class(&format!("c20:real-binary:{}:{}", if r.via_env { "env" } else { "file" }, vname));
    ctx.nontrivial(&(&r.seed.0, r.via_env, vname));
    Ok(())
}

pub fn c20_process_part(ctx: &mut Ctx) -> Vec<Violation> {
    let t = ctx.tier;
    // seeds must be 64 hex chars that YAML reads as a string: force a letter into the first byte
    let seed = bytes_exact(32).prop_map(|mut h| {
        h.0[0] |= 0xa0;
        h
    });
    let strat = (seed, any::<bool>(), 0u8..28, prop::sample::select(vec![1u8, 2]), prop::bool::weighted(0.25)).prop_map(|(mut seed, via_env, variant, workers, digits)| {
        if digits {
            seed = Hex(super::secrets::digit_only(&seed.0));
            seed.0[0] |= 0x10;
        }
        LeakRun { seed, via_env, variant, workers }
    });
    run_prop(ctx, "real-binary", t.pick(160, 1_920), 4, strat, |ctx, r| {
        ctx.sample("real-binary", 2, r);
        check_leak_run(ctx, r)
    })
}

pub fn c20_replay(ctx: &mut Ctx, sub: &str, case: &Value) -> Res {
    match sub {
        "real-binary" => replay_case::<LeakRun, _>(ctx, case, |ctx, r| check_leak_run(ctx, r)),
        _ => Err(viol("bad-replay-file", format!("unknown sub {}", sub))),
    }
}

#[allow(dead_code)]
fn unused(_: Msg) {
    let _ = rc::SIG;
    let _ = sha512(&[]);
}
