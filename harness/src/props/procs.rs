//! Process-level checks (real binaries).
use crate::engine::*;
use serde_json::Value;

pub fn c20_process_part(_ctx: &mut Ctx) -> Vec<Violation> {
    vec![]
}
pub fn c20_replay(_ctx: &mut Ctx, sub: &str, _case: &Value) -> Res {
    Err(viol("bad-replay-file", format!("unknown sub {}", sub)))
}
