//! Reference protocol logic written from the protocol texts (Google PROTOCOL.md, draft-ietf-ntp-roughtime-13):
//! request classifier, strict and lenient response verifiers, honest reference responder.

use crate::refcodec::{self as rc, Msg};
use crate::refcrypto::*;
use serde::{Deserialize, Serialize};

#[derive(Clone, Copy, Debug, PartialEq, Eq, Hash, Serialize, Deserialize)]
pub enum Proto {
    Classic,
    Ietf,
}

pub const VER_DRAFT13: u32 = 0x8000_000c;
pub const VER_CLASSIC: u32 = 0;

pub const DELE_CTX_CLASSIC: &[u8] = b"RoughTime v1 delegation signature--\x00";
pub const DELE_CTX_IETF: &[u8] = b"RoughTime v1 delegation signature\x00";
pub const SREP_CTX: &[u8] = b"RoughTime v1 response signature\x00";

impl Proto {
    pub fn dele_ctx(&self) -> &'static [u8] {
        match self {
            Proto::Classic => DELE_CTX_CLASSIC,
            Proto::Ietf => DELE_CTX_IETF,
        }
    }
    pub fn tree(&self) -> TreeParams {
        match self {
            Proto::Classic => CLASSIC_TREE,
            Proto::Ietf => IETF_TREE,
        }
    }
    pub fn nonce_len(&self) -> usize {
        match self {
            Proto::Classic => 64,
            Proto::Ietf => 32,
        }
    }
    pub fn name(&self) -> &'static str {
        match self {
            Proto::Classic => "classic",
            Proto::Ietf => "ietf",
        }
    }
    pub fn other(&self) -> Proto {
        match self {
            Proto::Classic => Proto::Ietf,
            Proto::Ietf => Proto::Classic,
        }
    }
}

// ------------------------------------------------------------------------------------------ requests

/// Build a request of exactly `total_len` bytes (must be large enough and a multiple of 4).
/// `vers`: IETF VER list; `srv`: optional SRV value. Padding goes into PAD (classic) / ZZZZ (IETF).
pub fn build_request(proto: Proto, nonce: &[u8], total_len: usize, vers: &[u32], srv: Option<&[u8]>) -> Vec<u8> {
    match proto {
        Proto::Classic => {
            let hdr = Msg::header_len(2);
            let pad = total_len.saturating_sub(hdr + nonce.len());
            Msg::new().with(rc::NONC, nonce).with(rc::PAD, &vec![0u8; pad]).encode()
        }
        Proto::Ietf => {
            let mut m = Msg::new();
            let verbytes: Vec<u8> = vers.iter().flat_map(|v| v.to_le_bytes()).collect();
            m.fields.push((rc::VER, verbytes));
            if let Some(s) = srv {
                m.fields.push((rc::SRV, s.to_vec()));
            }
            m.fields.push((rc::NONC, nonce.to_vec()));
            m.fields.push((rc::ZZZZ, vec![]));
            let cur = 12 + m.encode().len();
            let pad = total_len.saturating_sub(cur);
            m.set(rc::ZZZZ, vec![0u8; pad]);
            m.encode_framed()
        }
    }
}

#[derive(Debug, Clone, PartialEq, Eq)]
pub struct ReqInfo {
    pub proto: Proto,
    pub nonce: Vec<u8>,
    pub vers: Vec<u32>,
    pub srv: Option<Vec<u8>>,
    /// decodes with known tags only (what any server of this code base could parse)
    pub known_tags_only: bool,
}

#[derive(Debug, Clone, PartialEq, Eq)]
pub enum ReqClass {
    WellFormed(ReqInfo),
    NotRequest(&'static str),
}

/// Generous classifier: "could this datagram be called a well-formed request of either protocol?"
/// Used for the only-if direction (a reply implies well-formed), so it errs on the accepting side.
pub fn classify_request(b: &[u8]) -> ReqClass {
    if b.len() >= 8 && &b[0..8] == rc::MAGIC {
        let payload = match rc::unframe_strict(b) {
            Some(p) => p,
            None => return ReqClass::NotRequest("frame-length"),
        };
        let m = match Msg::decode_any(payload) {
            Ok(m) => m,
            Err(_) => return ReqClass::NotRequest("undecodable"),
        };
        let vers: Vec<u32> = match m.get(rc::VER) {
            Some(v) if v.len() % 4 == 0 => v.chunks(4).map(|c| u32::from_le_bytes([c[0], c[1], c[2], c[3]])).collect(),
            Some(_) => return ReqClass::NotRequest("ver-unaligned"),
            None => return ReqClass::NotRequest("no-ver"),
        };
        if !vers.contains(&VER_DRAFT13) {
            return ReqClass::NotRequest("no-supported-version");
        }
        let nonce = match m.get(rc::NONC) {
            Some(n) => n.to_vec(),
            None => return ReqClass::NotRequest("no-nonce"),
        };
        ReqClass::WellFormed(ReqInfo { proto: Proto::Ietf, nonce, vers, srv: m.get(rc::SRV).map(|s| s.to_vec()), known_tags_only: Msg::decode_known(payload).is_ok() })
    } else {
        let m = match Msg::decode_any(b) {
            Ok(m) => m,
            Err(_) => return ReqClass::NotRequest("undecodable"),
        };
        match m.get(rc::NONC) {
            Some(n) => ReqClass::WellFormed(ReqInfo { proto: Proto::Classic, nonce: n.to_vec(), vers: vec![], srv: None, known_tags_only: Msg::decode_known(b).is_ok() }),
            None => ReqClass::NotRequest("no-nonce"),
        }
    }
}

pub fn in_size_range(len: usize) -> bool {
    (1024..=1500).contains(&len)
}

/// A request every reading of the protocol says the server must answer: size in range, known tags,
/// standard nonce length, (IETF) draft-13 among the first four VER entries, SRV absent or this server's.
pub fn is_standard(b: &[u8], server_srv: &[u8]) -> Option<ReqInfo> {
    if !in_size_range(b.len()) {
        return None;
    }
    match classify_request(b) {
        ReqClass::WellFormed(i) => {
            if !i.known_tags_only || i.nonce.len() != i.proto.nonce_len() {
                return None;
            }
            if i.proto == Proto::Ietf {
                if !i.vers.iter().take(4).any(|v| *v == VER_DRAFT13) {
                    return None;
                }
                if let Some(s) = &i.srv {
                    if s != server_srv {
                        return None;
                    }
                }
            }
            Some(i)
        }
        _ => None,
    }
}

// ------------------------------------------------------------------------------------------ responses

#[derive(Debug, Clone, PartialEq, Eq)]
pub struct RespInfo {
    pub proto: Proto,
    pub midp: u64,
    pub radi: u32,
    pub index: u32,
    pub path_len: usize,
    pub srep: Vec<u8>,
    pub sig: Vec<u8>,
    pub cert: Vec<u8>,
    pub pubk: Vec<u8>,
    pub root: Vec<u8>,
    pub mint: u64,
    pub maxt: u64,
    pub nonc: Option<Vec<u8>>,
    pub ver: Option<u32>,
    pub vers: Vec<u32>,
}

fn u64le(b: &[u8]) -> u64 {
    let mut a = [0u8; 8];
    a.copy_from_slice(&b[..8]);
    u64::from_le_bytes(a)
}
fn u32le(b: &[u8]) -> u32 {
    u32::from_le_bytes([b[0], b[1], b[2], b[3]])
}

/// Leaf data of a request for the Merkle tree: the nonce (classic) / the whole request packet (IETF).
pub fn leaf_data<'a>(proto: Proto, request: &'a [u8], nonce: &'a [u8]) -> &'a [u8] {
    match proto {
        Proto::Classic => nonce,
        Proto::Ietf => request,
    }
}

/// Structural parse shared by both verifiers. `strict` additionally enforces exact framing and sizes.
fn parse_response(proto: Proto, resp: &[u8], strict: bool) -> Result<(RespInfo, Msg), String> {
    let payload: &[u8] = match proto {
        Proto::Classic => resp,
        Proto::Ietf => {
            if resp.len() < 12 || &resp[0..8] != rc::MAGIC {
                return Err("frame-magic".into());
            }
            let l = u32le(&resp[8..12]) as usize;
            if strict {
                if l != resp.len() - 12 {
                    return Err("frame-length".into());
                }
                &resp[12..]
            } else if l <= resp.len() - 12 && Msg::decode_any(&resp[12..12 + l]).is_ok() {
                &resp[12..12 + l]
            } else {
                &resp[12..]
            }
        }
    };
    let m = if strict { Msg::decode_known(payload) } else { Msg::decode_any(payload) }.map_err(|e| format!("top-decode:{:?}", e))?;
    let sig = m.get(rc::SIG).ok_or("no-SIG")?.to_vec();
    let path = m.get(rc::PATH).ok_or("no-PATH")?.to_vec();
    let srep_b = m.get(rc::SREP).ok_or("no-SREP")?.to_vec();
    let cert_b = m.get(rc::CERT).ok_or("no-CERT")?.to_vec();
    let indx = m.get(rc::INDX).ok_or("no-INDX")?.to_vec();
    if sig.len() != 64 {
        return Err("SIG-size".into());
    }
    // lenient: fixed-width numbers are read from the first bytes of the value (longer values tolerated)
    let bad = |len: usize, want: usize| if strict { len != want } else { len < want };
    if bad(indx.len(), 4) {
        return Err("INDX-size".into());
    }
    let srep = Msg::decode_any(&srep_b).map_err(|e| format!("srep-decode:{:?}", e))?;
    let cert = Msg::decode_any(&cert_b).map_err(|e| format!("cert-decode:{:?}", e))?;
    let dele_b = cert.get(rc::DELE).ok_or("no-DELE")?.to_vec();
    let cert_sig = cert.get(rc::SIG).ok_or("no-CERT.SIG")?.to_vec();
    if cert_sig.len() != 64 {
        return Err("CERT.SIG-size".into());
    }
    let dele = Msg::decode_any(&dele_b).map_err(|e| format!("dele-decode:{:?}", e))?;
    let pubk = dele.get(rc::PUBK).ok_or("no-PUBK")?.to_vec();
    let mint = dele.get(rc::MINT).ok_or("no-MINT")?.to_vec();
    let maxt = dele.get(rc::MAXT).ok_or("no-MAXT")?.to_vec();
    if pubk.len() != 32 || bad(mint.len(), 8) || bad(maxt.len(), 8) {
        return Err("DELE-field-size".into());
    }
    let midp = srep.get(rc::MIDP).ok_or("no-MIDP")?.to_vec();
    let radi = srep.get(rc::RADI).ok_or("no-RADI")?.to_vec();
    let root = srep.get(rc::ROOT).ok_or("no-ROOT")?.to_vec();
    if bad(midp.len(), 8) || bad(radi.len(), 4) {
        return Err("SREP-field-size".into());
    }
    let ver = srep.get(rc::VER).and_then(|v| if v.len() == 4 { Some(u32le(v)) } else { None });
    let vers: Vec<u32> = srep.get(rc::VERS).map(|v| v.chunks(4).filter(|c| c.len() == 4).map(u32le).collect()).unwrap_or_default();
    let info = RespInfo {
        proto,
        midp: u64le(&midp),
        radi: u32le(&radi),
        index: u32le(&indx),
        path_len: path.len(),
        srep: srep_b,
        sig,
        cert: cert_b,
        pubk,
        root,
        mint: u64le(&mint),
        maxt: u64le(&maxt),
        nonc: m.get(rc::NONC).map(|n| n.to_vec()),
        ver,
        vers,
    };
    Ok((info, m))
}

fn check_chain(proto: Proto, info: &RespInfo, cert: &Msg, long_term_pk: &[u8]) -> Result<(), String> {
    let dele_b = cert.get(rc::DELE).unwrap();
    let cert_sig = cert.get(rc::SIG).unwrap();
    let mut signed = proto.dele_ctx().to_vec();
    signed.extend_from_slice(dele_b);
    if !verify(long_term_pk, &signed, cert_sig) {
        return Err("cert-signature".into());
    }
    let mut signed = SREP_CTX.to_vec();
    signed.extend_from_slice(&info.srep);
    if !verify(&info.pubk, &signed, &info.sig) {
        return Err("srep-signature".into());
    }
    if info.midp < info.mint || info.midp > info.maxt {
        return Err("midpoint-outside-delegation".into());
    }
    Ok(())
}

/// Everything the protocol documents require of a response to `request`.
pub fn verify_strict(proto: Proto, request: &[u8], resp: &[u8], long_term_pk: &[u8]) -> Result<RespInfo, String> {
    let req = match classify_request(request) {
        ReqClass::WellFormed(i) if i.proto == proto => i,
        _ => return Err("request-not-of-this-protocol".into()),
    };
    let (info, m) = parse_response(proto, resp, true)?;
    let cert = Msg::decode_known(&info.cert).map_err(|_| "cert-unknown-tags")?;
    Msg::decode_known(&info.srep).map_err(|_| "srep-unknown-tags")?;
    Msg::decode_known(cert.get(rc::DELE).unwrap()).map_err(|_| "dele-unknown-tags")?;
    match &info.nonc {
        Some(n) if *n == req.nonce => {}
        Some(_) => return Err("nonce-echo-differs".into()),
        None => return Err("no-NONC".into()),
    }
    check_chain(proto, &info, &cert, long_term_pk)?;
    let w = proto.tree().width;
    if info.root.len() != w {
        return Err(format!("ROOT-size:{}", info.root.len()));
    }
    let path = m.get(rc::PATH).unwrap();
    if path.len() % w != 0 {
        return Err(format!("PATH-not-multiple-of-{}", w));
    }
    let depth = path.len() / w;
    if depth > 32 {
        return Err("PATH-too-long".into());
    }
    if depth < 32 && (info.index as u64) >> depth != 0 {
        return Err("INDX-not-exhausted".into());
    }
    let leaf = leaf_data(proto, request, &req.nonce);
    match climb(proto.tree(), info.index as u64, leaf, path) {
        Some(r) if r == info.root => {}
        _ => return Err("merkle-root-mismatch".into()),
    }
    if proto == Proto::Ietf {
        if info.ver != Some(VER_DRAFT13) {
            return Err("SREP.VER-not-draft13".into());
        }
        if !info.vers.contains(&VER_DRAFT13) {
            return Err("SREP.VERS-lacks-draft13".into());
        }
        if !info.vers.windows(2).all(|w| w[0] < w[1]) {
            return Err("SREP.VERS-not-sorted-unique".into());
        }
        let srep = Msg::decode_any(&info.srep).unwrap();
        if srep.get(rc::VERS).map(|v| v.len() % 4 != 0).unwrap_or(true) {
            return Err("SREP.VERS-missing-or-unaligned".into());
        }
    }
    Ok(info)
}

#[derive(Debug, Clone, PartialEq, Eq)]
pub enum Lenient {
    Authentic(RespInfo),
    Unauthentic(String),
    Unparseable(String),
}

/// Could this response arguably be authentic for `request` under `long_term_pk`? Tolerant wherever the
/// documents are silent or implementations differ (extra tags, missing/different NONC echo, INDX bits
/// above the path depth, trailing frame bytes, legacy 64-byte IETF nodes).
pub fn verify_lenient(proto: Proto, request: &[u8], resp: &[u8], long_term_pk: &[u8]) -> Lenient {
    let req = match classify_request(request) {
        ReqClass::WellFormed(i) if i.proto == proto => i,
        _ => return Lenient::Unparseable("request-not-of-this-protocol".into()),
    };
    let (info, m) = match parse_response(proto, resp, false) {
        Ok(x) => x,
        Err(e) => return Lenient::Unparseable(e),
    };
    let cert = Msg::decode_any(&info.cert).unwrap();
    if let Err(e) = check_chain(proto, &info, &cert, long_term_pk) {
        return Lenient::Unauthentic(e);
    }
    let path = m.get(rc::PATH).unwrap();
    let leaf = leaf_data(proto, request, &req.nonce);
    let mut widths = vec![proto.tree().width];
    if proto == Proto::Ietf {
        widths.push(64);
    }
    for w in widths {
        if let Some(mut r) = climb(TreeParams { width: w }, info.index as u64, leaf, path) {
            r.truncate(info.root.len());
            if !info.root.is_empty() && r == info.root && (info.root.len() == 32 || info.root.len() == 64) {
                return Lenient::Authentic(info);
            }
        }
    }
    Lenient::Unauthentic("merkle-root-mismatch".into())
}

// ------------------------------------------------------------------------------------------ responder

/// The parts of a response, kept separately so that forgeries can edit and re-sign them.
#[derive(Debug, Clone)]
pub struct RespParts {
    pub proto: Proto,
    pub sig: Vec<u8>,
    pub nonc: Vec<u8>,
    pub path: Vec<u8>,
    pub srep: Msg,
    pub cert_sig: Vec<u8>,
    pub dele: Msg,
    pub indx: u32,
}

impl RespParts {
    pub fn cert(&self) -> Msg {
        Msg::new().with(rc::SIG, &self.cert_sig).with(rc::DELE, &self.dele.encode())
    }
    pub fn message(&self) -> Msg {
        Msg::new()
            .with(rc::SIG, &self.sig)
            .with(rc::NONC, &self.nonc)
            .with(rc::PATH, &self.path)
            .with(rc::SREP, &self.srep.encode())
            .with(rc::CERT, &self.cert().encode())
            .with(rc::INDX, &self.indx.to_le_bytes())
    }
    pub fn assemble(&self) -> Vec<u8> {
        match self.proto {
            Proto::Classic => self.message().encode(),
            Proto::Ietf => self.message().encode_framed(),
        }
    }
    pub fn resign_srep(&mut self, online: &RefKey) {
        let mut signed = SREP_CTX.to_vec();
        signed.extend_from_slice(&self.srep.encode());
        self.sig = online.sign(&signed);
    }
    pub fn resign_dele(&mut self, long_term: &RefKey, ctx: &[u8]) {
        let mut signed = ctx.to_vec();
        signed.extend_from_slice(&self.dele.encode());
        self.cert_sig = long_term.sign(&signed);
    }
}

pub struct Responder {
    pub long_term: RefKey,
    pub online: RefKey,
    pub mint: u64,
    pub maxt: u64,
}

impl Responder {
    pub fn new(long_term_seed: &[u8], online_seed: &[u8]) -> Responder {
        Responder { long_term: RefKey::from_seed(long_term_seed), online: RefKey::from_seed(online_seed), mint: 0, maxt: u64::MAX }
    }
    pub fn public_key(&self) -> Vec<u8> {
        self.long_term.public()
    }

    /// Honest responses for a whole batch of requests of one protocol, signed at `midp`
    /// (classic: microseconds, IETF: seconds).
    pub fn respond_batch(&self, proto: Proto, requests: &[Vec<u8>], midp: u64) -> Vec<RespParts> {
        let nonces: Vec<Vec<u8>> = requests
            .iter()
            .map(|r| match classify_request(r) {
                ReqClass::WellFormed(i) => i.nonce,
                _ => vec![0u8; proto.nonce_len()],
            })
            .collect();
        let leaves: Vec<Vec<u8>> = requests.iter().zip(nonces.iter()).map(|(r, n)| leaf_data(proto, r, n).to_vec()).collect();
        let (root, paths) = build_tree(proto.tree(), &leaves);
        let radi: u32 = match proto {
            Proto::Classic => 5_000_000,
            Proto::Ietf => 5,
        };
        let mut srep = Msg::new();
        if proto == Proto::Ietf {
            srep.fields.push((rc::VER, VER_DRAFT13.to_le_bytes().to_vec()));
        }
        srep.fields.push((rc::RADI, radi.to_le_bytes().to_vec()));
        srep.fields.push((rc::MIDP, midp.to_le_bytes().to_vec()));
        if proto == Proto::Ietf {
            let mut v = VER_CLASSIC.to_le_bytes().to_vec();
            v.extend_from_slice(&VER_DRAFT13.to_le_bytes());
            srep.fields.push((rc::VERS, v));
        }
        srep.fields.push((rc::ROOT, root));
        let dele = Msg::new().with(rc::PUBK, &self.online.public()).with(rc::MINT, &self.mint.to_le_bytes()).with(rc::MAXT, &self.maxt.to_le_bytes());
        let mut out = vec![];
        for (i, n) in nonces.iter().enumerate() {
            let mut p = RespParts { proto, sig: vec![], nonc: n.clone(), path: paths[i].clone(), srep: srep.clone(), cert_sig: vec![], dele: dele.clone(), indx: i as u32 };
            if i == 0 {
                p.resign_srep(&self.online);
                p.resign_dele(&self.long_term, proto.dele_ctx());
            } else {
                p.sig = out[0_usize..1].iter().map(|q: &RespParts| q.sig.clone()).next().unwrap();
                p.cert_sig = out[0].cert_sig.clone();
            }
            out.push(p);
        }
        out
    }
}

/// filler requests to surround a request of interest in a reference batch
pub fn filler_request(proto: Proto, k: u32) -> Vec<u8> {
    let nonce: Vec<u8> = sha512(&[b"filler", &k.to_le_bytes()])[..proto.nonce_len()].to_vec();
    build_request(proto, &nonce, 1024, &[VER_DRAFT13], None)
}

/// Verifier for high-rate streams of replies: full strict verification once per distinct (SIG, SREP, CERT)
/// triple, then only the per-reply parts (nonce echo, index, Merkle climb). Same verdicts as `verify_strict`.
pub struct FastVerifier {
    pk: Vec<u8>,
    seen_ok: std::collections::HashSet<u64>,
    pub full: u64,
    pub fast: u64,
}

impl FastVerifier {
    pub fn new(pk: &[u8]) -> Self {
        FastVerifier { pk: pk.to_vec(), seen_ok: std::collections::HashSet::new(), full: 0, fast: 0 }
    }

    pub fn verify(&mut self, proto: Proto, request: &[u8], resp: &[u8]) -> Result<RespInfo, String> {
        // cheap structural pass
        let (info, m) = parse_response(proto, resp, true)?;
        let mut h = std::collections::hash_map::DefaultHasher::new();
        use std::hash::{Hash, Hasher};
        (proto, &info.sig, &info.srep, &info.cert).hash(&mut h);
        let key = h.finish();
        if !self.seen_ok.contains(&key) {
            self.full += 1;
            let r = verify_strict(proto, request, resp, &self.pk)?;
            if self.seen_ok.len() < 100_000 {
                self.seen_ok.insert(key);
            }
            return Ok(r);
        }
        self.fast += 1;
        let req = match classify_request(request) {
            ReqClass::WellFormed(i) if i.proto == proto => i,
            _ => return Err("request-not-of-this-protocol".into()),
        };
        match &info.nonc {
            Some(n) if *n == req.nonce => {}
            Some(_) => return Err("nonce-echo-differs".into()),
            None => return Err("no-NONC".into()),
        }
        let w = proto.tree().width;
        let path = m.get(rc::PATH).unwrap();
        if path.len() % w != 0 || path.len() / w > 32 {
            return Err("PATH-shape".into());
        }
        let depth = path.len() / w;
        if depth < 32 && (info.index as u64) >> depth != 0 {
            return Err("INDX-not-exhausted".into());
        }
        match climb(proto.tree(), info.index as u64, leaf_data(proto, request, &req.nonce), path) {
            Some(r) if r == info.root => Ok(info),
            _ => Err("merkle-root-mismatch".into()),
        }
    }
}
