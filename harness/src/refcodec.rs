//! Independent reference codec for the Roughtime tag-value format.
//!
//! Written from the protocol descriptions (Google PROTOCOL.md, draft-ietf-ntp-roughtime-13 §5),
//! not from /repo/src. Tags are compared as little-endian u32 numbers on the wire.

pub const fn tag(s: &[u8; 4]) -> u32 {
    (s[0] as u32) | ((s[1] as u32) << 8) | ((s[2] as u32) << 16) | ((s[3] as u32) << 24)
}

pub const SIG: u32 = tag(b"SIG\x00");
pub const VER: u32 = tag(b"VER\x00");
pub const SRV: u32 = tag(b"SRV\x00");
pub const NONC: u32 = tag(b"NONC");
pub const DELE: u32 = tag(b"DELE");
pub const PATH: u32 = tag(b"PATH");
pub const RADI: u32 = tag(b"RADI");
pub const PUBK: u32 = tag(b"PUBK");
pub const MIDP: u32 = tag(b"MIDP");
pub const SREP: u32 = tag(b"SREP");
pub const VERS: u32 = tag(b"VERS");
pub const MINT: u32 = tag(b"MINT");
pub const ROOT: u32 = tag(b"ROOT");
pub const CERT: u32 = tag(b"CERT");
pub const MAXT: u32 = tag(b"MAXT");
pub const INDX: u32 = tag(b"INDX");
pub const ZZZZ: u32 = tag(b"ZZZZ");
pub const PAD: u32 = tag(b"PAD\xff");

/// The 18 tags the product knows, in ascending numeric order.
pub const KNOWN: [u32; 18] = [
    SIG, VER, SRV, NONC, DELE, PATH, RADI, PUBK, MIDP, SREP, VERS, MINT, ROOT, CERT, MAXT, INDX,
    ZZZZ, PAD,
];

pub const MAGIC: &[u8; 8] = b"ROUGHTIM";

pub fn tag_name(t: u32) -> String {
    let b = t.to_le_bytes();
    b.iter()
        .map(|c| if c.is_ascii_graphic() { *c as char } else if *c == 0 { '0' } else { '?' })
        .collect()
}

#[derive(Debug, Clone, PartialEq, Eq)]
pub struct Msg {
    pub fields: Vec<(u32, Vec<u8>)>,
}

#[derive(Debug, Clone, PartialEq, Eq)]
pub enum DecErr {
    Short,
    Unaligned,
    HeaderTooLong,
    UnknownTag(u32),
    TagOrder,
    OffsetUnaligned,
    OffsetOrder,
    OffsetRange,
}

fn rd(b: &[u8], i: usize) -> u32 {
    u32::from_le_bytes([b[i], b[i + 1], b[i + 2], b[i + 3]])
}

impl Msg {
    pub fn new() -> Self {
        Msg { fields: vec![] }
    }
    pub fn with(mut self, t: u32, v: &[u8]) -> Self {
        self.fields.push((t, v.to_vec()));
        self
    }
    pub fn get(&self, t: u32) -> Option<&[u8]> {
        self.fields.iter().find(|f| f.0 == t).map(|f| f.1.as_slice())
    }
    pub fn has(&self, t: u32) -> bool {
        self.get(t).is_some()
    }
    pub fn set(&mut self, t: u32, v: Vec<u8>) {
        for f in self.fields.iter_mut() {
            if f.0 == t {
                f.1 = v;
                return;
            }
        }
        self.fields.push((t, v));
        self.fields.sort_by_key(|f| f.0);
    }
    pub fn remove(&mut self, t: u32) {
        self.fields.retain(|f| f.0 != t);
    }

    /// Header length in bytes for `n` fields.
    pub fn header_len(n: usize) -> usize {
        if n == 0 {
            4
        } else {
            4 + 4 * (n - 1) + 4 * n
        }
    }

    /// Encode exactly as given (no sorting, no checks): the inverse of `decode_any`.
    pub fn encode(&self) -> Vec<u8> {
        let n = self.fields.len();
        let mut out = Vec::with_capacity(Self::header_len(n) + self.fields.iter().map(|f| f.1.len()).sum::<usize>());
        out.extend_from_slice(&(n as u32).to_le_bytes());
        let mut off = 0usize;
        for (i, f) in self.fields.iter().enumerate() {
            if i > 0 {
                out.extend_from_slice(&(off as u32).to_le_bytes());
            }
            off += f.1.len();
        }
        for f in &self.fields {
            out.extend_from_slice(&f.0.to_le_bytes());
        }
        for f in &self.fields {
            out.extend_from_slice(&f.1);
        }
        out
    }

    pub fn encode_framed(&self) -> Vec<u8> {
        frame(&self.encode())
    }

    /// Decode with the rules every Roughtime message obeys; `known_only` additionally demands that
    /// every tag is one of the 18 `KNOWN` tags (what the product's decoder implements).
    pub fn decode(b: &[u8], known_only: bool) -> Result<Msg, DecErr> {
        if b.len() < 4 {
            return Err(DecErr::Short);
        }
        if b.len() % 4 != 0 {
            return Err(DecErr::Unaligned);
        }
        let n = rd(b, 0) as u64;
        if n == 0 {
            return Ok(Msg::new());
        }
        let hdr = 4 + 4 * (n - 1) + 4 * n;
        if hdr > b.len() as u64 {
            return Err(DecErr::HeaderTooLong);
        }
        let n = n as usize;
        let hdr = hdr as usize;
        let area = b.len() - hdr;
        let mut offs = Vec::with_capacity(n + 1);
        offs.push(0usize);
        for i in 0..n - 1 {
            let o = rd(b, 4 + 4 * i) as usize;
            if o % 4 != 0 {
                return Err(DecErr::OffsetUnaligned);
            }
            if o > area {
                return Err(DecErr::OffsetRange);
            }
            if o < *offs.last().unwrap() {
                return Err(DecErr::OffsetOrder);
            }
            offs.push(o);
        }
        offs.push(area);
        let tbase = 4 + 4 * (n - 1);
        let mut fields = Vec::with_capacity(n);
        let mut last: Option<u32> = None;
        for i in 0..n {
            let t = rd(b, tbase + 4 * i);
            if known_only && !KNOWN.contains(&t) {
                return Err(DecErr::UnknownTag(t));
            }
            if let Some(l) = last {
                if t <= l {
                    return Err(DecErr::TagOrder);
                }
            }
            last = Some(t);
            fields.push((t, b[hdr + offs[i]..hdr + offs[i + 1]].to_vec()));
        }
        Ok(Msg { fields })
    }

    pub fn decode_known(b: &[u8]) -> Result<Msg, DecErr> {
        Self::decode(b, true)
    }
    pub fn decode_any(b: &[u8]) -> Result<Msg, DecErr> {
        Self::decode(b, false)
    }
}

pub fn frame(payload: &[u8]) -> Vec<u8> {
    let mut out = Vec::with_capacity(12 + payload.len());
    out.extend_from_slice(MAGIC);
    out.extend_from_slice(&(payload.len() as u32).to_le_bytes());
    out.extend_from_slice(payload);
    out
}

/// Strict unframing: magic, length field equal to the remaining byte count.
pub fn unframe_strict(b: &[u8]) -> Option<&[u8]> {
    if b.len() < 12 || &b[0..8] != MAGIC {
        return None;
    }
    let l = rd(b, 8) as usize;
    if l != b.len() - 12 {
        return None;
    }
    Some(&b[12..])
}

pub fn hex(b: &[u8]) -> String {
    let mut s = String::with_capacity(b.len() * 2);
    for x in b {
        s.push_str(&format!("{:02x}", x));
    }
    s
}

pub fn unhex(s: &str) -> Vec<u8> {
    let s = s.as_bytes();
    let v = |c: u8| -> u8 {
        match c {
            b'0'..=b'9' => c - b'0',
            b'a'..=b'f' => c - b'a' + 10,
            b'A'..=b'F' => c - b'A' + 10,
            _ => panic!("bad hex"),
        }
    };
    s.chunks(2).map(|p| v(p[0]) * 16 + v(p[1])).collect()
}
