//! Entry points for the coverage-guided (libFuzzer) twins of the proptest checks. Each decodes the
//! fuzzer's bytes into structured arguments, runs the same oracle as the proptest body and panics on a
//! violation (libFuzzer then saves the input). Open known findings are tolerated in-target so that
//! campaigns keep searching behind them; `RV_FUZZ_STRICT=1` disables the tolerance for replay.

use crate::engine::*;
use crate::gen::Hex;
use crate::props::{codec, envelope, merkle, server, sign};
use crate::refproto::*;
use crate::srvlab::*;
use std::cell::RefCell;

thread_local! {
    static CTXS: RefCell<std::collections::HashMap<&'static str, Ctx>> = RefCell::new(std::collections::HashMap::new());
    static LAB: RefCell<Option<Lab>> = RefCell::new(None);
}

fn with_ctx(prop: &'static str, f: impl FnOnce(&mut Ctx) -> Res) {
    let r = CTXS.with(|m| {
        let mut m = m.borrow_mut();
        let ctx = m.entry(prop).or_insert_with(|| {
            install_quiet_panic_hook_for_fuzz();
            let mut c = Ctx::new(prop, Tier::Thorough, 1, 0, 1);
            c.counting = false;
            c.strict = std::env::var("RV_FUZZ_STRICT").is_ok();
            c
        });
        f(ctx)
    });
    if let Err(v) = r {
        // restore the default hook so that libFuzzer reports the panic
        let _ = std::panic::take_hook();
        panic!("VIOLATION property={} sig={} :: {}", prop, v.sig, v.what);
    }
}

fn install_quiet_panic_hook_for_fuzz() {
    // panics inside catch_unwind'ed product code must not abort the fuzzer: libfuzzer-sys installs a hook
    // that aborts on any panic, so replace it with the quiet recording hook
    install_quiet_panic_hook();
}

/// C05 + C06 on raw bytes
pub fn codec_diff(data: &[u8]) {
    with_ctx("C05", |ctx| codec::diff_check(ctx, data, "fuzz"));
    with_ctx("C06", |ctx| codec::safety_check(ctx, data, "fuzz"));
}

/// C07 (pure twin): nonce_from_request Ok => reference classifier says well-formed, in range, same nonce/protocol
pub fn request_classify(data: &[u8]) {
    with_ctx("C07", |ctx| {
        if data.len() < 8 {
            return Ok(());
        }
        let srv = [0x11u8; 32];
        let r = match no_unwind(|| roughenough::request::nonce_from_request(data, data.len(), &srv)) {
            Ok(r) => r,
            Err(p) => return ctx.fail(format!("nonce-from-request-panic|{}", panic_site(&p)), p),
        };
        if let Ok((nonce, ver)) = r {
            if !in_size_range(data.len()) {
                return ctx.fail("accepted-out-of-size-range", format!("{} bytes accepted", data.len()));
            }
            match classify_request(data) {
                ReqClass::WellFormed(i) => {
                    let p = if ver == roughenough::version::Version::Google { Proto::Classic } else { Proto::Ietf };
                    if i.proto != p || i.nonce != nonce {
                        return ctx.fail("accepted-with-different-nonce-or-protocol", "nonce/protocol differ from the reference reading");
                    }
                    if let Some(s) = &i.srv {
                        if s.as_slice() != srv {
                            return ctx.fail("accepted-for-another-server", "SRV differs from the expected value");
                        }
                    }
                }
                ReqClass::NotRequest(why) => return ctx.fail(format!("accepted-non-request|{}", why), format!("nonce_from_request accepted a datagram the reference classifier rejects ({})", why)),
            }
        }
        Ok(())
    });
}

fn split_datagrams(data: &[u8]) -> Vec<Vec<u8>> {
    // [len_lo, len_hi, flags] + bytes; flags bit0: expand to a valid request built from the bytes
    let mut out = vec![];
    let mut i = 0;
    while i + 3 <= data.len() && out.len() < 40 {
        let len = (data[i] as usize | (data[i + 1] as usize) << 8) % 1600;
        let flags = data[i + 2];
        i += 3;
        let end = (i + len).min(data.len());
        let body = &data[i..end];
        i = end;
        let d = match flags & 3 {
            0 => body.to_vec(),
            1 | 2 => {
                // a standard request whose nonce comes from the body, then the body's bytes patched over the header
                let proto = if flags & 3 == 1 { Proto::Classic } else { Proto::Ietf };
                let mut nonce = vec![0u8; proto.nonce_len()];
                for (k, b) in body.iter().take(nonce.len()).enumerate() {
                    nonce[k] = *b;
                }
                let total = 1024 + ((flags as usize >> 2) % 120) * 4;
                let mut r = build_request(proto, &nonce, total, &[VER_DRAFT13], None);
                if flags & 0x80 != 0 {
                    for (k, b) in body.iter().skip(nonce.len()).take(48).enumerate() {
                        r[k] = *b;
                    }
                }
                r
            }
            _ => {
                let mut r = body.to_vec();
                r.resize(1024, flags);
                r
            }
        };
        out.push(d);
    }
    out
}

/// C07 + C08 (+ C02 strictness of every reply) through a persistent in-process Server at Trace level.
/// libFuzzer's main thread has no Rust thread name and `Server::new` insists on a named thread, so the lab
/// lives in a dedicated named thread that executes one input at a time.
pub fn server_seq(data: &[u8]) {
    use std::sync::mpsc::{channel, Receiver, Sender};
    use std::sync::{Mutex, OnceLock};
    static WORKER: OnceLock<Mutex<(Sender<Vec<u8>>, Receiver<Result<(), String>>)>> = OnceLock::new();
    let w = WORKER.get_or_init(|| {
        let (tx_in, rx_in) = channel::<Vec<u8>>();
        let (tx_out, rx_out) = channel::<Result<(), String>>();
        std::thread::Builder::new()
            .name("fuzz-server".into())
            .stack_size(16 << 20)
            .spawn(move || {
                crate::engine::isolate_network();
                while let Ok(input) = rx_in.recv() {
                    let r = std::panic::catch_unwind(|| server_seq_inner(&input));
                    let _ = tx_out.send(r.map_err(|p| panic_msg(&p)));
                }
            })
            .expect("spawn fuzz-server thread");
        Mutex::new((tx_in, rx_out))
    });
    let g = w.lock().unwrap();
    g.0.send(data.to_vec()).expect("fuzz-server thread alive");
    match g.1.recv().expect("fuzz-server thread alive") {
        Ok(()) => {}
        Err(m) => {
            let _ = std::panic::take_hook();
            panic!("{}", m);
        }
    }
}

fn server_seq_inner(data: &[u8]) {
    with_ctx("C08", |ctx| {
        install_logger(log::LevelFilter::Trace);
        let dgs = split_datagrams(data);
        LAB.with(|l| {
            let mut l = l.borrow_mut();
            if l.is_none() {
                *l = Some(Lab::new(LabCfg { batch_size: 7, ..Default::default() }, 8).map_err(|e| viol("server-new-failed", e))?);
            }
            let lab = l.as_mut().unwrap();
            let sends: Vec<server::Send> = vec![];
            let _ = sends;
            let sent: Vec<(usize, Vec<u8>)> = dgs.iter().enumerate().map(|(i, d)| (i % 8, d.clone())).collect();
            let res = match lab.step(&sent, 0) {
                Ok(r) => r,
                Err(StepErr::Panic(p)) => {
                    *l = None;
                    return ctx.fail(format!("process-events-panic|{}", panic_site(&p)), p);
                }
                Err(StepErr::Wedged(m)) => {
                    *l = None;
                    return ctx.fail("wedged", m);
                }
            };
            let _ = take_logs();
            let pk = lab.pk.clone();
            if res.sentinel_replies.len() != 1 || verify_strict(res.sentinel_proto, &res.sentinel_request, &res.sentinel_replies[0], &pk).is_err() {
                return ctx.fail("sentinel-reply-invalid", "sentinel not answered correctly");
            }
            for (sock, replies) in res.replies.iter().enumerate() {
                let mine: Vec<&Vec<u8>> = sent.iter().filter(|s| s.0 == sock).map(|s| &s.1).collect();
                for r in replies {
                    // every reply must strictly verify for a well-formed in-range request of this socket and be no longer than it
                    let ok = mine.iter().any(|q| {
                        in_size_range(q.len())
                            && matches!(classify_request(q), ReqClass::WellFormed(_))
                            && r.len() <= q.len()
                            && match classify_request(q) {
                                ReqClass::WellFormed(i) => verify_strict(i.proto, q, r, &pk).is_ok(),
                                _ => false,
                            }
                    });
                    if !ok {
                        return ctx.fail("reply-not-owed-or-invalid-or-amplifying", format!("socket {} got a reply of {} bytes that no well-formed in-range request of it accounts for", sock, r.len()));
                    }
                }
            }
            Ok(())
        })
    });
}

/// C14: mutations of one genuine blob; Ok only for the identical blob
pub fn envelope_blob(data: &[u8]) {
    use roughenough::kms::EnvelopeEncryption;
    thread_local! {
        static FIX: RefCell<Option<(envelope::TableKms, Vec<u8>, Vec<u8>)>> = RefCell::new(None);
    }
    with_ctx("C14", |ctx| {
        FIX.with(|f| {
            let mut f = f.borrow_mut();
            if f.is_none() {
                let kms = envelope::TableKms::new(24, envelope::Fault::None, 9);
                let plain: Vec<u8> = (0..40u8).collect();
                let blob = EnvelopeEncryption::encrypt_seed(&kms, &plain).expect("encrypt");
                *f = Some((kms, plain, blob));
            }
            let (kms, plain, blob) = f.as_ref().unwrap();
            // input = either an arbitrary blob, or an edit script applied to the genuine blob
            let cand: Vec<u8> = if data.first().map(|b| b & 1 == 0).unwrap_or(true) {
                data.get(1..).unwrap_or(&[]).to_vec()
            } else {
                let mut b = blob.clone();
                for ch in data[1..].chunks(3) {
                    if ch.len() == 3 && !b.is_empty() {
                        let pos = ((ch[0] as usize) << 8 | ch[1] as usize) % b.len();
                        b[pos] ^= ch[2];
                    }
                }
                b
            };
            match no_unwind(|| EnvelopeEncryption::decrypt_seed(kms, &cand)) {
                Ok(Ok(p)) => {
                    if &cand != blob || &p != plain {
                        return ctx.fail("tamper-accepted|fuzz", format!("decrypt_seed returned Ok for a blob that differs from the genuine one: {}", crate::refcodec::hex(&cand)));
                    }
                }
                Ok(Err(_)) => {}
                Err(p) => return ctx.fail(format!("tamper-panic|fuzz|{}", panic_site(&p)), p),
            }
            Ok(())
        })
    });
}

fn take<'a>(data: &mut &'a [u8], n: usize) -> &'a [u8] {
    let n = n.min(data.len());
    let (a, b) = data.split_at(n);
    *data = b;
    a
}

/// C04: leaves and batch histories decoded from the bytes
pub fn merkle_ops(data: &[u8]) {
    with_ctx("C04", |ctx| {
        let mut d = data;
        let hdr = take(&mut d, 2);
        if hdr.len() < 2 {
            return Ok(());
        }
        let ietf = hdr[0] & 1 == 1;
        let nb = (hdr[1] % 4) as usize + 1;
        let mut batches: Vec<Vec<Hex>> = vec![];
        for _ in 0..nb {
            let h = take(&mut d, 1);
            if h.is_empty() {
                break;
            }
            let n = (h[0] as usize % 40) + 1;
            let mut leaves = vec![];
            for k in 0..n {
                let lh = take(&mut d, 1);
                let l = if lh.is_empty() { 0 } else { lh[0] as usize % 24 };
                let mut leaf = take(&mut d, l).to_vec();
                if hdr[0] & 2 == 0 {
                    leaf.extend_from_slice(&(k as u16).to_le_bytes()); // distinct
                }
                leaves.push(Hex(leaf));
            }
            batches.push(leaves);
        }
        if batches.is_empty() {
            return Ok(());
        }
        merkle::reuse(ctx, ietf, &batches, "fuzz")?;
        let first = &batches[0];
        merkle::completeness(ctx, ietf, first, "fuzz")?;
        merkle::binding(ctx, ietf, first, (hdr[1] as usize >> 2) % first.len(), hdr[0] as u16 * 7, "fuzz")
    });
}

/// C13: chunked messages on one signer + verifier corruption
pub fn sign_chunks(data: &[u8]) {
    with_ctx("C13", |ctx| {
        let mut d = data;
        let seed = take(&mut d, 32);
        if seed.len() < 32 {
            return Ok(());
        }
        let mut msgs = vec![];
        while !d.is_empty() && msgs.len() < 8 {
            let nc = take(&mut d, 1)[0] as usize % 5;
            let mut chunks = vec![];
            for _ in 0..nc {
                let lh = take(&mut d, 1);
                let l = if lh.is_empty() { 0 } else { lh[0] as usize };
                chunks.push(Hex(take(&mut d, l).to_vec()));
            }
            msgs.push(chunks);
        }
        if msgs.is_empty() {
            return Ok(());
        }
        let corrupt = match data[0] % 5 {
            0 => sign::Corrupt::None,
            1 => sign::Corrupt::SigBit(data[1] as u16 * 2 + (data[2] as u16 & 1)),
            2 => sign::Corrupt::KeyBit(data[1] as u16),
            3 => sign::Corrupt::MsgBit(data[1] as u32 * 8 + (data[2] as u32 & 7)),
            _ => sign::Corrupt::SigLen(data[1]),
        };
        sign::check_verify(ctx, &sign::VerifyCase { seed: Hex(seed.to_vec()), chunks: msgs[0].clone(), corrupt })?;
        sign::check_history(ctx, &sign::SignHistory { seed: Hex(seed.to_vec()), msgs })
    });
}

/// run a target by name on one input (used by `rv replay` for saved fuzz findings and by `rv gen-corpus` self-checks);
/// returns Err(message) if the target reports a violation
pub fn run_target(target: &str, data: &[u8]) -> Result<(), String> {
    let f: fn(&[u8]) = match target {
        "codec_diff" => codec_diff,
        "request_classify" => request_classify,
        "server_seq" => server_seq,
        "envelope_blob" => envelope_blob,
        "merkle_ops" => merkle_ops,
        "sign_chunks" => sign_chunks,
        _ => return Err(format!("unknown fuzz target {}", target)),
    };
    match std::panic::catch_unwind(|| f(data)) {
        Ok(()) => Ok(()),
        Err(p) => {
            install_quiet_panic_hook();
            Err(panic_msg(&p))
        }
    }
}

pub const TARGETS: [(&str, &[&str]); 6] = [
    ("codec_diff", &["C05", "C06"]),
    ("request_classify", &["C07"]),
    ("server_seq", &["C07", "C08"]),
    ("envelope_blob", &["C14"]),
    ("merkle_ops", &["C04"]),
    ("sign_chunks", &["C13"]),
];
