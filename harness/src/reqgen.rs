//! Generators for datagrams sent to a server: standard requests, near-valid mutants, junk.

use crate::gen::*;
use crate::refcodec::{self as rc, Msg};
use crate::refproto::*;
use proptest::prelude::*;
use serde::{Deserialize, Serialize};

#[derive(Debug, Clone, Serialize, Deserialize, PartialEq, Eq)]
pub enum SrvOpt {
    Absent,
    Correct,
    Wrong(Hex),
}

/// A standard request: total length 1024..=1500 (multiple of 4), standard nonce length.
#[derive(Debug, Clone, Serialize, Deserialize)]
pub struct StdReq {
    pub ietf: bool,
    /// total length in 4-byte words (256..=375)
    pub words: u16,
    pub nonce: Hex,
    pub srv: SrvOpt,
    /// IETF VER list (must contain draft-13 among the first four for a "standard" request)
    pub vers: Vec<u32>,
}

impl StdReq {
    pub fn proto(&self) -> Proto {
        if self.ietf {
            Proto::Ietf
        } else {
            Proto::Classic
        }
    }
    pub fn bytes(&self, server_srv: &[u8]) -> Vec<u8> {
        let srv: Option<Vec<u8>> = match &self.srv {
            SrvOpt::Absent => None,
            SrvOpt::Correct => Some(server_srv.to_vec()),
            SrvOpt::Wrong(h) => Some(h.0.clone()),
        };
        build_request(self.proto(), &self.nonce.0, self.words as usize * 4, &self.vers, srv.as_deref())
    }
}

pub fn std_req_of(ietf: bool) -> impl Strategy<Value = StdReq> {
    let words = prop_oneof![3 => Just(256u16), 1 => Just(375u16), 2 => 256u16..=375];
    let nonce = if ietf { bytes_exact(32).boxed() } else { bytes_exact(64).boxed() };
    let srv = if ietf { prop_oneof![2 => Just(SrvOpt::Absent), 1 => Just(SrvOpt::Correct)].boxed() } else { Just(SrvOpt::Absent).boxed() };
    let vers = if ietf {
        prop_oneof![
            4 => Just(vec![VER_DRAFT13]),
            1 => Just(vec![0x8000_000b, VER_DRAFT13]),
            1 => Just(vec![0, 1, 2, VER_DRAFT13]),
            1 => Just(vec![VER_DRAFT13, 0x8000_000d, 7]),
        ]
        .boxed()
    } else {
        Just(vec![]).boxed()
    };
    (words, nonce, srv, vers).prop_map(move |(words, nonce, srv, vers)| StdReq { ietf, words, nonce, srv, vers })
}

pub fn std_req() -> impl Strategy<Value = StdReq> {
    any::<bool>().prop_flat_map(std_req_of)
}

/// a well-formed request of ANY aligned total length around the limits (992..=1040 and 1480..=1528 bytes):
/// correct framing and padding, only the size decides
pub fn sized_req() -> impl Strategy<Value = StdReq> {
    (std_req(), prop_oneof![248u16..=260, 370u16..=382]).prop_map(|(mut r, words)| {
        r.words = words;
        r
    })
}

#[derive(Debug, Clone, Serialize, Deserialize)]
pub enum FieldMut {
    NoNonc,
    RenameNonc(u32),
    SwapTags(u16, u16),
    Offset(u16, u32),
    FrameLen(i32),
    Magic(u8, u8),
    NoVer,
    Vers(Vec<u32>),
    WrongSrv(Hex),
    SrvLen(u8),
    Word(u16, u32),
    Bit(u16, u8),
    Count(u32),
}

#[derive(Debug, Clone, Serialize, Deserialize)]
pub enum WordVal {
    Abs(u32),
    /// boundary - header length - minus, for boundary in {datagram length, 1024, 1500, 2048, 4096, 65536}
    RelEnd(u8, u16),
}

#[derive(Debug, Clone, Serialize, Deserialize)]
pub enum Dgram {
    Std(StdReq),
    /// request whose nonce has an arbitrary aligned length (in words); padded to `words` total if it fits
    NonceLen { ietf: bool, nonce_words: u16, words: u16, fill: u8 },
    /// base request resized by `delta` bytes (truncate / extend with zeros)
    Delta { base: StdReq, delta: i8 },
    /// base request resized to `len` bytes
    Resize { base: StdReq, len: u32, fill: u8 },
    Field { base: StdReq, m: FieldMut },
    /// a message crafted at codec level: arbitrary known tags (index into the 18 known tags, value length in words;
    /// sorted, NONC of standard length added), padded with zeros to `len` bytes, then header words overwritten.
    /// `words`: (header word index, value) where the value is absolute or relative to a buffer-size boundary
    Crafted { ietf: bool, fields: Vec<(u8, u8)>, len: u32, words: Vec<(u8, WordVal)> },
    /// a count word followed by small aligned words (a header that promises more offsets/tags than the datagram holds,
    /// with every word a plausible offset), padded with `fill_word` to `len` bytes; optionally RFC-framed
    Header { ietf: bool, count: u32, words: Vec<u32>, fill_word: u32, len: u32 },
    /// an otherwise complete 1024-byte request carrying exactly these known tags (indices into the ascending list of 18)
    /// IN THE GIVEN ORDER — nothing is sorted. VER carries draft-13, SRV this server's value, NONC the standard length,
    /// everything else 4 bytes, and the last tag that is none of those absorbs the padding
    TagOrder { ietf: bool, tags: Vec<u8> },
    /// `prefix` followed by `fill` up to `len` bytes
    Junk { prefix: Hex, len: u32, fill: u8 },
    Empty,
}

fn setw(x: &mut [u8], w: usize, v: u32) {
    if w * 4 + 4 <= x.len() {
        x[w * 4..w * 4 + 4].copy_from_slice(&v.to_le_bytes());
    }
}
fn getw(x: &[u8], w: usize) -> u32 {
    if w * 4 + 4 <= x.len() {
        u32::from_le_bytes([x[w * 4], x[w * 4 + 1], x[w * 4 + 2], x[w * 4 + 3]])
    } else {
        0
    }
}

impl Dgram {
    pub fn bytes(&self, server_srv: &[u8]) -> Vec<u8> {
        match self {
            Dgram::Std(s) => s.bytes(server_srv),
            Dgram::NonceLen { ietf, nonce_words, words, fill } => {
                let proto = if *ietf { Proto::Ietf } else { Proto::Classic };
                let nonce = vec![*fill; *nonce_words as usize * 4];
                build_request(proto, &nonce, *words as usize * 4, &[VER_DRAFT13], None)
            }
            Dgram::Delta { base, delta } => {
                let mut b = base.bytes(server_srv);
                let nl = (b.len() as i64 + *delta as i64).max(0) as usize;
                b.resize(nl, 0);
                b
            }
            Dgram::Resize { base, len, fill } => {
                let mut b = base.bytes(server_srv);
                b.resize((*len as usize).min(65_507), *fill);
                b
            }
            Dgram::Field { base, m } => {
                let b = base.bytes(server_srv);
                let (off, mut msg) = if base.ietf { (12usize, Msg::decode_any(&b[12..]).unwrap()) } else { (0usize, Msg::decode_any(&b).unwrap()) };
                let n = msg.fields.len();
                let reenc = |msg: &Msg| if base.ietf { msg.encode_framed() } else { msg.encode() };
                match m {
                    FieldMut::NoNonc => {
                        msg.remove(rc::NONC);
                        reenc(&msg)
                    }
                    FieldMut::RenameNonc(t) => {
                        let mut x = b.clone();
                        let tag_base = off / 4 + 1 + (n - 1);
                        for i in 0..n {
                            if getw(&x, tag_base + i) == rc::NONC {
                                setw(&mut x, tag_base + i, *t);
                            }
                        }
                        x
                    }
                    FieldMut::SwapTags(i, j) => {
                        let mut x = b.clone();
                        let tag_base = off / 4 + 1 + (n - 1);
                        let (i, j) = (tag_base + idx(*i, n), tag_base + idx(*j, n));
                        let (a, c) = (getw(&x, i), getw(&x, j));
                        setw(&mut x, i, c);
                        setw(&mut x, j, a);
                        x
                    }
                    FieldMut::Offset(i, v) => {
                        let mut x = b.clone();
                        if n >= 2 {
                            setw(&mut x, off / 4 + 1 + idx(*i, n - 1), *v);
                        }
                        x
                    }
                    FieldMut::FrameLen(d) => {
                        let mut x = b.clone();
                        if base.ietf {
                            let l = getw(&x, 2) as i64 + *d as i64;
                            setw(&mut x, 2, l as u32);
                        } else {
                            let c = getw(&x, 0) as i64 + *d as i64;
                            setw(&mut x, 0, c as u32);
                        }
                        x
                    }
                    FieldMut::Magic(p, v) => {
                        let mut x = b.clone();
                        x[(*p % 8) as usize] = *v;
                        x
                    }
                    FieldMut::NoVer => {
                        msg.remove(rc::VER);
                        reenc(&msg)
                    }
                    FieldMut::Vers(v) => {
                        if base.ietf {
                            msg.set(rc::VER, v.iter().flat_map(|x| x.to_le_bytes()).collect());
                        }
                        reenc(&msg)
                    }
                    FieldMut::WrongSrv(h) => {
                        if base.ietf {
                            msg.set(rc::SRV, h.0.clone());
                        }
                        reenc(&msg)
                    }
                    FieldMut::SrvLen(l) => {
                        if base.ietf {
                            let mut s = server_srv.to_vec();
                            s.resize(*l as usize * 4, 0xee);
                            msg.set(rc::SRV, s);
                        }
                        reenc(&msg)
                    }
                    FieldMut::Word(i, v) => {
                        let mut x = b.clone();
                        // header words only (first 16 words) so that the mutation matters
                        let w = idx(*i, 16.min(x.len() / 4));
                        setw(&mut x, w, *v);
                        x
                    }
                    FieldMut::Bit(i, bit) => {
                        let mut x = b.clone();
                        let p = idx(*i, 96.min(x.len()));
                        x[p] ^= 1 << (bit % 8);
                        x
                    }
                    FieldMut::Count(c) => {
                        let mut x = b.clone();
                        setw(&mut x, off / 4, *c);
                        x
                    }
                }
            }
            Dgram::TagOrder { ietf, tags } => {
                let mut m = Msg::new();
                for t in tags {
                    let tag = rc::KNOWN[*t as usize % 18];
                    let v = if tag == rc::NONC {
                        vec![0xd4u8; if *ietf { 32 } else { 64 }]
                    } else if tag == rc::VER {
                        VER_DRAFT13.to_le_bytes().to_vec()
                    } else if tag == rc::SRV {
                        server_srv.to_vec()
                    } else {
                        vec![0x30 + *t; 4]
                    };
                    m.fields.push((tag, v));
                }
                let target = if *ietf { 1012 } else { 1024 };
                let have = m.encode().len();
                if have < target {
                    if let Some(k) = (0..m.fields.len()).rev().find(|k| ![rc::NONC, rc::VER, rc::SRV].contains(&m.fields[*k].0)) {
                        let add = target - have;
                        m.fields[k].1.extend(std::iter::repeat(0u8).take(add));
                    }
                }
                if *ietf {
                    m.encode_framed()
                } else {
                    m.encode()
                }
            }
            Dgram::Crafted { ietf, fields, len, words } => {
                let nonce_len = if *ietf { 32 } else { 64 };
                let mut m = Msg::new();
                for (t, w) in fields {
                    let tag = rc::KNOWN[*t as usize % 18];
                    if tag != rc::NONC && !m.has(tag) {
                        m.fields.push((tag, vec![0x61u8.wrapping_add(*t); *w as usize * 4]));
                    }
                }
                if *ietf && !m.has(rc::VER) {
                    m.fields.push((rc::VER, VER_DRAFT13.to_le_bytes().to_vec()));
                }
                m.fields.push((rc::NONC, vec![0xc3u8; nonce_len]));
                m.fields.sort_by_key(|f| f.0);
                let n = m.fields.len();
                let hdr = Msg::header_len(n);
                let mut b = if *ietf { m.encode_framed() } else { m.encode() };
                let total = (*len as usize).min(65_507);
                b.resize(total.max(16), 0);
                if *ietf {
                    let l = (b.len() - 12) as u32;
                    b[8..12].copy_from_slice(&l.to_le_bytes());
                }
                let off = if *ietf { 3 } else { 0 };
                for (wi, v) in words {
                    let val = match v {
                        WordVal::Abs(x) => *x,
                        WordVal::RelEnd(bsel, minus) => {
                            let boundary = [b.len(), 1024, 1500, 2048, 4096, 65_536][*bsel as usize % 6] as i64;
                            (boundary - hdr as i64 - if *ietf { 12 } else { 0 } - *minus as i64) as u32
                        }
                    };
                    // header words after the count: n-1 offsets, then n tags; offsets are targeted 70% of the time
                    let w = if *wi < 180 && n >= 2 { off + 1 + (*wi as usize % (n - 1)) } else { off + 1 + (n - 1) + (*wi as usize % n.max(1)) };
                    setw(&mut b, w, val);
                }
                b
            }
            Dgram::Header { ietf, count, words, fill_word, len } => {
                let total = ((*len as usize).min(65_507) / 4) * 4;
                let mut payload: Vec<u8> = count.to_le_bytes().to_vec();
                for w in words {
                    payload.extend_from_slice(&w.to_le_bytes());
                }
                let body = total.saturating_sub(if *ietf { 12 } else { 0 });
                while payload.len() < body {
                    payload.extend_from_slice(&fill_word.to_le_bytes());
                }
                payload.truncate(body.max(4));
                if *ietf {
                    rc::frame(&payload)
                } else {
                    payload
                }
            }
            Dgram::Junk { prefix, len, fill } => {
                let mut b = prefix.0.clone();
                b.resize((*len as usize).min(65_507), *fill);
                b
            }
            Dgram::Empty => vec![],
        }
    }

    pub fn family(&self) -> &'static str {
        match self {
            Dgram::Std(s) => {
                if s.words < 256 || s.words > 375 {
                    "wellformed-but-out-of-size-range"
                } else if s.ietf {
                    "std-ietf"
                } else {
                    "std-classic"
                }
            }
            Dgram::NonceLen { .. } => "nonce-len",
            Dgram::Delta { .. } => "delta",
            Dgram::Resize { .. } => "resize",
            Dgram::Field { m, .. } => match m {
                FieldMut::NoNonc | FieldMut::RenameNonc(_) => "field-nonc",
                FieldMut::SwapTags(..) => "field-order",
                FieldMut::Offset(..) => "field-offset",
                FieldMut::FrameLen(_) => "field-framelen",
                FieldMut::Magic(..) => "field-magic",
                FieldMut::NoVer | FieldMut::Vers(_) => "field-ver",
                FieldMut::WrongSrv(_) | FieldMut::SrvLen(_) => "field-srv",
                FieldMut::Word(..) | FieldMut::Bit(..) | FieldMut::Count(_) => "field-bits",
            },
            Dgram::Crafted { .. } => "crafted",
            Dgram::TagOrder { .. } => "tag-order",
            Dgram::Header { .. } => "header-count",
            Dgram::Junk { .. } => "junk",
            Dgram::Empty => "empty",
        }
    }
}

fn interesting_len() -> impl Strategy<Value = u32> {
    prop_oneof![
        4 => 1016u32..=1032,
        4 => 1492u32..=1508,
        2 => 0u32..=64,
        3 => 1024u32..=1500,
        1 => 0u32..=65_507,
        1 => Just(65_507u32),
    ]
}

fn field_mut() -> impl Strategy<Value = FieldMut> {
    let word = prop_oneof![
        3 => prop::sample::select(vec![0u32, 1, 2, 3, 4, 5, 8, 64, 1000, 1024, 1025, 1 << 30, 0x7fff_fffc, 0xffff_fffc, 0xffff_ffff]),
        2 => (0u32..400).prop_map(|w| w * 4),
        1 => any::<u32>(),
    ];
    prop_oneof![
        2 => Just(FieldMut::NoNonc),
        1 => prop::sample::select(vec![rc::PAD, rc::ZZZZ, rc::SIG, u32::from_le_bytes(*b"NONX")]).prop_map(FieldMut::RenameNonc),
        2 => (any::<u16>(), any::<u16>()).prop_map(|(a, b)| FieldMut::SwapTags(a, b)),
        3 => (any::<u16>(), word.clone()).prop_map(|(i, v)| FieldMut::Offset(i, v)),
        3 => prop_oneof![-8i32..=8, prop::sample::select(vec![-1024i32, 1024, i32::MAX, i32::MIN])].prop_map(FieldMut::FrameLen),
        1 => (0u8..8, any::<u8>()).prop_map(|(p, v)| FieldMut::Magic(p, v)),
        1 => Just(FieldMut::NoVer),
        2 => proptest::collection::vec(prop::sample::select(vec![0u32, 1, 0x8000_000b, 0x8000_000d, 0x8000_0000]), 0..6).prop_map(FieldMut::Vers),
        2 => bytes_exact(32).prop_map(FieldMut::WrongSrv),
        1 => (0u8..=17).prop_map(FieldMut::SrvLen),
        2 => (any::<u16>(), word.clone()).prop_map(|(i, v)| FieldMut::Word(i, v)),
        2 => (any::<u16>(), 0u8..8).prop_map(|(i, b)| FieldMut::Bit(i, b)),
        2 => word.prop_map(FieldMut::Count),
    ]
}

/// nonce length in words: every aligned length that fits (0..=373 words = 0..=1492 bytes), mass on the edges
fn nonce_words() -> impl Strategy<Value = u16> {
    prop_oneof![3 => 0u16..=20, 2 => 0u16..=373, 2 => 240u16..=260, 2 => 360u16..=373, 1 => Just(0u16), 1 => Just(373u16)]
}

fn crafted() -> impl Strategy<Value = Dgram> {
    let wv = prop_oneof![
        2 => prop::sample::select(vec![0u32, 4, 32, 64, 68, 960, 1000, 1008, 1024, 1500, 4096, 65_472, 65_536, 0xffff_fffc]).prop_map(WordVal::Abs),
        2 => (0u32..16_400).prop_map(|w| WordVal::Abs(w * 4)),
        4 => (prop_oneof![2 => 0u8..5, 1 => Just(5u8)], prop::sample::select(vec![0u16, 4, 8, 32, 36, 64, 68, 96, 128])).prop_map(|(b, m)| WordVal::RelEnd(b, m)),
    ];
    // tags before NONC (SIG, VER, SRV) are favoured so that NONC is often the last field (its end = end of buffer)
    (any::<bool>(), proptest::collection::vec((prop_oneof![1 => 0u8..3, 1 => 0u8..18], 0u8..6), 0..=4), prop_oneof![3 => Just(1024u32), 1 => (256u32..=375).prop_map(|w| w * 4), 1 => 1000u32..=1520], proptest::collection::vec((any::<u8>(), wv), 0..=3))
        .prop_map(|(ietf, fields, len, words)| Dgram::Crafted { ietf, fields, len, words })
}

fn header_count() -> impl Strategy<Value = Dgram> {
    let count = prop_oneof![3 => prop::sample::select(vec![0u32, 1, 2, 3, 17, 18, 19, 20, 64, 127, 128, 129, 255, 256, 257, 300, 512, 1000, 1023, 1024, 1025, 4096, 1 << 30, u32::MAX]), 1 => 2u32..=1100];
    let small = prop_oneof![3 => Just(0u32), 2 => (0u32..=64).prop_map(|w| w * 4), 1 => (0u32..=400).prop_map(|w| w * 4)];
    (any::<bool>(), count, proptest::collection::vec(small.clone(), 0..=24), small, prop_oneof![3 => Just(1024u32), 1 => Just(1500u32), 1 => (256u32..=375).prop_map(|w| w * 4)])
        .prop_map(|(ietf, count, words, fill_word, len)| Dgram::Header { ietf, count, words, fill_word, len })
}

/// any datagram family (valid and invalid)
pub fn any_dgram() -> impl Strategy<Value = Dgram> {
    prop_oneof![
        3 => header_count(),
        4 => crafted(),
        6 => std_req().prop_map(Dgram::Std),
        3 => sized_req().prop_map(Dgram::Std),
        3 => (any::<bool>(), nonce_words(), prop_oneof![Just(256u16), Just(375u16), 256u16..=375], any::<u8>()).prop_map(|(ietf, nonce_words, words, fill)| Dgram::NonceLen { ietf, nonce_words, words, fill }),
        3 => (std_req(), prop_oneof![-8i8..=8, Just(-4i8), Just(4i8)]).prop_map(|(base, delta)| Dgram::Delta { base, delta }),
        2 => (std_req(), interesting_len(), any::<u8>()).prop_map(|(base, len, fill)| Dgram::Resize { base, len, fill }),
        6 => (std_req(), field_mut()).prop_map(|(base, m)| Dgram::Field { base, m }),
        2 => (bytes(0usize..=64), interesting_len(), any::<u8>()).prop_map(|(prefix, len, fill)| Dgram::Junk { prefix, len, fill }),
        1 => (Just(Hex(b"ROUGHTIM".to_vec())), interesting_len(), any::<u8>()).prop_map(|(prefix, len, fill)| Dgram::Junk { prefix, len, fill }),
        2 => tag_order(),
        1 => Just(Dgram::Empty),
    ]
}

/// the required tags plus up to three more, sorted, then (half of the time) two positions exchanged
pub fn tag_order() -> impl Strategy<Value = Dgram> {
    (any::<bool>(), proptest::sample::subsequence((0u8..18).collect::<Vec<_>>(), 0..=3), any::<bool>(), any::<u8>(), any::<u8>()).prop_map(|(ietf, extra, swap, i, j)| {
        let mut tags = tag_order_base(ietf);
        for t in extra {
            if !tags.contains(&t) {
                tags.push(t);
            }
        }
        tags.sort();
        if swap && tags.len() >= 2 {
            let (a, b) = (i as usize % tags.len(), j as usize % tags.len());
            tags.swap(a, b);
        }
        Dgram::TagOrder { ietf, tags }
    })
}

/// indices (into the ascending list of the 18 known tags) of the tags every request of the protocol carries
pub fn tag_order_base(ietf: bool) -> Vec<u8> {
    let pos = |t: u32| rc::KNOWN.iter().position(|k| *k == t).unwrap() as u8;
    if ietf {
        vec![pos(rc::VER), pos(rc::NONC)]
    } else {
        vec![pos(rc::NONC)]
    }
}

/// every pair of known tags added to the required ones, in ascending order and with the two exchanged
pub fn tag_order_grid() -> Vec<Dgram> {
    let mut out = vec![];
    for ietf in [false, true] {
        for a in 0u8..18 {
            for b in (a + 1)..18 {
                let mut tags = tag_order_base(ietf);
                for t in [a, b] {
                    if !tags.contains(&t) {
                        tags.push(t);
                    }
                }
                tags.sort();
                out.push(Dgram::TagOrder { ietf, tags: tags.clone() });
                let (pa, pb) = (tags.iter().position(|t| *t == a).unwrap(), tags.iter().position(|t| *t == b).unwrap());
                tags.swap(pa, pb);
                out.push(Dgram::TagOrder { ietf, tags });
            }
        }
    }
    out
}

/// clearly invalid datagrams only (never answered under any reading): used where exact reply counts are asserted
pub fn invalid_dgram() -> impl Strategy<Value = Dgram> {
    prop_oneof![
        2 => (std_req(), prop_oneof![-8i8..=-1, 1i8..=3]).prop_map(|(base, delta)| Dgram::Delta { base, delta }),
        2 => (std_req(), prop_oneof![0u32..=1020, 1504u32..=2000]).prop_map(|(base, len)| Dgram::Resize { base, len, fill: 0 }),
        1 => std_req().prop_map(|base| Dgram::Field { base, m: FieldMut::NoNonc }),
        2 => (bytes(0usize..=32), 0u32..=2000, any::<u8>()).prop_map(|(prefix, len, fill)| Dgram::Junk { prefix, len, fill }),
        1 => Just(Dgram::Empty),
    ]
}
