//! Shared generator building blocks (all randomness comes from proptest).

use crate::refcodec::{hex, unhex};
use proptest::prelude::*;
use serde::{Deserialize, Deserializer, Serialize, Serializer};
use std::fmt;

/// Byte string that serialises as hex (replay files stay readable).
#[derive(Clone, PartialEq, Eq, Hash, Default)]
pub struct Hex(pub Vec<u8>);

impl fmt::Debug for Hex {
    fn fmt(&self, f: &mut fmt::Formatter<'_>) -> fmt::Result {
        if self.0.len() > 64 {
            write!(f, "Hex[{}]({}…)", self.0.len(), hex(&self.0[..32]))
        } else {
            write!(f, "Hex({})", hex(&self.0))
        }
    }
}
impl Serialize for Hex {
    fn serialize<S: Serializer>(&self, s: S) -> Result<S::Ok, S::Error> {
        s.serialize_str(&hex(&self.0))
    }
}
impl<'de> Deserialize<'de> for Hex {
    fn deserialize<D: Deserializer<'de>>(d: D) -> Result<Self, D::Error> {
        let s = String::deserialize(d)?;
        if s.len() % 2 != 0 || !s.bytes().all(|c| c.is_ascii_hexdigit()) {
            return Err(serde::de::Error::custom("bad hex"));
        }
        Ok(Hex(unhex(&s)))
    }
}
impl std::ops::Deref for Hex {
    type Target = Vec<u8>;
    fn deref(&self) -> &Vec<u8> {
        &self.0
    }
}

/// Monotone index mapping (never `%`, so shrinking towards 0 shrinks the index).
pub fn idx(i: u16, len: usize) -> usize {
    if len == 0 {
        0
    } else {
        ((i as usize) * len) >> 16
    }
}

pub fn bytes(len: impl Strategy<Value = usize>) -> impl Strategy<Value = Hex> {
    len.prop_flat_map(|n| proptest::collection::vec(any::<u8>(), n)).prop_map(Hex)
}

pub fn bytes_exact(n: usize) -> impl Strategy<Value = Hex> {
    proptest::collection::vec(any::<u8>(), n).prop_map(Hex)
}

pub fn seed32() -> impl Strategy<Value = Hex> {
    prop_oneof![
        8 => bytes_exact(32),
        1 => Just(Hex(vec![0u8; 32])),
        1 => Just(Hex(vec![0xffu8; 32])),
        // seeds people type in: one repeated byte, counting up / down with a constant step
        1 => any::<u8>().prop_map(|b| Hex(vec![b; 32])),
        1 => (any::<u8>(), prop_oneof![Just(1u8), Just(255u8), Just(2u8), Just(16u8), Just(17u8), any::<u8>()]).prop_map(|(start, step)| Hex((0..32u8).map(|i| start.wrapping_add(i.wrapping_mul(step))).collect())),
        // RFC 8032 test vector 1 and 2 seeds
        1 => Just(Hex(unhex("9d61b19deffd5a60ba844af492ec2cc44449c5697b326919703bac031cae7f60"))),
        1 => Just(Hex(unhex("4ccd089b28ff96da9db6c346ec114e0f5b8a319f35aba624da8cf6ed4fb8a6fb"))),
        // printable ASCII seed: a raw leak would look like text
        1 => "[ -~]{32}".prop_map(|s| Hex(s.into_bytes())),
    ]
}

/// aligned (multiple of 4) value length with mass on small values
pub fn aligned_len(max_words: usize) -> impl Strategy<Value = usize> {
    prop_oneof![
        6 => (0usize..=8).prop_map(|w| w * 4),
        3 => (0usize..=64.min(max_words)).prop_map(|w| w * 4),
        1 => (0usize..=max_words).prop_map(|w| w * 4),
    ]
}

/// vector whose length is drawn from a (weighted) strategy
pub fn vec_of<S>(elem: S, len: impl Strategy<Value = usize>) -> impl Strategy<Value = Vec<S::Value>>
where
    S: Strategy + Clone + 'static,
    S::Value: std::fmt::Debug,
{
    len.prop_flat_map(move |n| proptest::collection::vec(elem.clone(), n))
}
