//! Engine: seeds, sharding into worker processes, proptest driving with shrinking, replay files,
//! evidence, known findings.

use proptest::strategy::Strategy;
use proptest::test_runner::{Config, RngAlgorithm, RngSeed, TestCaseError, TestError, TestRunner};
use serde::{de::DeserializeOwned, Deserialize, Serialize};
use serde_json::{json, Value};
use std::cell::RefCell;
use std::collections::hash_map::DefaultHasher;
use std::collections::{BTreeMap, HashSet};
use std::fmt::Debug;
use std::hash::{Hash, Hasher};
use std::path::PathBuf;

pub const VERIF_DIR: &str = "/verif";

#[derive(Clone, Copy, PartialEq, Eq, Debug)]
pub enum Tier {
    Quick,
    Thorough,
}

impl Tier {
    pub fn parse(s: &str) -> Tier {
        match s {
            "thorough" => Tier::Thorough,
            _ => Tier::Quick,
        }
    }
    pub fn name(&self) -> &'static str {
        match self {
            Tier::Quick => "quick",
            Tier::Thorough => "thorough",
        }
    }
    /// pick by tier
    pub fn pick<T>(&self, quick: T, thorough: T) -> T {
        match self {
            Tier::Quick => quick,
            Tier::Thorough => thorough,
        }
    }
}

/// A property violation as reported by a check body.
#[derive(Debug, Clone, Serialize, Deserialize)]
pub struct Viol {
    /// stable signature: which obligation failed, on what class of input (used to key known findings)
    pub sig: String,
    /// human-readable description with the concrete values
    pub what: String,
}

pub type Res = Result<(), Viol>;

pub fn viol(sig: impl Into<String>, what: impl Into<String>) -> Viol {
    Viol { sig: sig.into(), what: what.into() }
}

#[derive(Debug, Clone, Serialize, Deserialize)]
pub struct Violation {
    pub sub: String,
    pub sig: String,
    pub what: String,
    pub case: Value,
}

#[derive(Debug, Clone, Serialize, Deserialize, Default)]
pub struct KnownFinding {
    pub status: String, // "open" | "fixed"
    pub property: String,
    #[serde(default)]
    pub signature: String,
    #[serde(default)]
    pub commit: String,
    pub what: String,
}

pub fn load_known() -> Vec<KnownFinding> {
    let p = format!("{}/known_findings.json", VERIF_DIR);
    match std::fs::read_to_string(&p) {
        Ok(s) => serde_json::from_str(&s).expect("known_findings.json must parse"),
        Err(_) => vec![],
    }
}

#[derive(Debug, Clone, Serialize, Deserialize, Default)]
pub struct Stats {
    pub evals: u64,
    /// fingerprints of non-trivial cases (capped per worker)
    pub nt: HashSet<u64>,
    /// non-trivial cases that are distinct by construction (exhaustive enumerations)
    pub nt_exact: u64,
    pub classes: BTreeMap<String, u64>,
    pub samples: Vec<Value>,
    /// open known findings re-observed: signature -> (count, example)
    pub known: BTreeMap<String, (u64, String)>,
    pub exhaustive_spaces: Vec<String>,
    pub notes: Vec<String>,
    pub inconclusive: Vec<String>,
}

const NT_CAP: usize = 50_000;

pub struct Ctx {
    pub prop: String,
    pub tier: Tier,
    pub seed: u64,
    pub shard: u32,
    pub nshards: u32,
    pub known: Vec<KnownFinding>,
    /// strict: known findings are not tolerated (replay of a fresh violation file)
    pub strict: bool,
    /// false while proptest is shrinking (do not count)
    pub counting: bool,
    /// true inside exhaustive enumerations: cases are distinct by construction, count instead of hashing
    pub exact: bool,
    pub stats: Stats,
    sample_budget: BTreeMap<String, u32>,
}

impl Ctx {
    pub fn new(prop: &str, tier: Tier, seed: u64, shard: u32, nshards: u32) -> Ctx {
        Ctx {
            prop: prop.to_string(),
            tier,
            seed,
            shard,
            nshards,
            known: load_known().into_iter().filter(|k| k.property == prop && k.status == "open").collect(),
            strict: false,
            counting: true,
            exact: false,
            stats: Stats::default(),
            sample_budget: BTreeMap::new(),
        }
    }

    pub fn eval(&mut self) {
        if self.counting {
            self.stats.evals += 1;
        }
    }
    pub fn evals(&mut self, n: u64) {
        if self.counting {
            self.stats.evals += n;
        }
    }
    pub fn class(&mut self, c: &str) {
        if self.counting {
            *self.stats.classes.entry(c.to_string()).or_insert(0) += 1;
        }
    }
    pub fn class_n(&mut self, c: &str, n: u64) {
        if self.counting {
            *self.stats.classes.entry(c.to_string()).or_insert(0) += n;
        }
    }
    /// record a non-trivial case by fingerprint
    pub fn nontrivial<H: Hash>(&mut self, fp: &H) {
        if self.counting && self.exact {
            self.stats.nt_exact += 1;
        } else if self.counting && self.stats.nt.len() < NT_CAP {
            let mut h = DefaultHasher::new();
            fp.hash(&mut h);
            self.stats.nt.insert(h.finish());
        }
    }
    /// record n non-trivial cases that are distinct by construction
    pub fn nontrivial_exact(&mut self, n: u64) {
        if self.counting {
            self.stats.nt_exact += n;
        }
    }
    /// keep up to `max` literal samples per label
    pub fn sample<S: Serialize>(&mut self, label: &str, max: u32, s: &S) {
        if !self.counting {
            return;
        }
        let b = self.sample_budget.entry(label.to_string()).or_insert(0);
        if *b < max && self.shard == 0 {
            *b += 1;
            let mut v = serde_json::to_value(s).unwrap_or(Value::Null);
            truncate_value(&mut v, 400);
            self.stats.samples.push(json!({ "kind": label, "case": v }));
        }
    }
    pub fn note(&mut self, s: impl Into<String>) {
        self.stats.notes.push(s.into());
    }
    pub fn inconclusive(&mut self, s: impl Into<String>) {
        self.stats.inconclusive.push(s.into());
    }

    /// Report a failed obligation. If it matches an open known finding (and we are not strict) it is
    /// counted and tolerated (`Ok`), so the search continues behind it; otherwise it is a violation.
    pub fn fail(&mut self, sig: impl Into<String>, what: impl Into<String>) -> Res {
        let sig = sig.into();
        let what = what.into();
        if !self.strict {
            for k in &self.known {
                let m = if let Some(p) = k.signature.strip_suffix('*') { sig.starts_with(p) } else { k.signature == sig };
                if m {
                    let key = k.signature.clone();
                    let e = self.stats.known.entry(key).or_insert((0, what.clone()));
                    if self.counting {
                        e.0 += 1;
                    }
                    return Ok(());
                }
            }
        }
        Err(Viol { sig, what })
    }

    /// Is this signature an open known finding (without counting)?
    pub fn is_known(&self, sig: &str) -> bool {
        !self.strict
            && self.known.iter().any(|k| {
                if let Some(p) = k.signature.strip_suffix('*') {
                    sig.starts_with(p)
                } else {
                    k.signature == sig
                }
            })
    }

    pub fn sub_seed(&self, sub: &str) -> u64 {
        let mut h = DefaultHasher::new();
        sub.hash(&mut h);
        self.prop.hash(&mut h);
        self.seed
            .wrapping_mul(0x9E37_79B9_7F4A_7C15)
            .wrapping_add((self.shard as u64).wrapping_mul(0x1000_0000_01B3))
            ^ h.finish()
    }

    /// this shard's share of `total` cases
    pub fn share(&self, total: u64) -> u64 {
        let base = total / self.nshards as u64;
        let rem = total % self.nshards as u64;
        base + if (self.shard as u64) < rem { 1 } else { 0 }
    }
}

fn truncate_value(v: &mut Value, max: usize) {
    match v {
        Value::String(s) => {
            if s.len() > max {
                let n = s.len();
                let mut cut = max;
                while !s.is_char_boundary(cut) {
                    cut -= 1;
                }
                s.truncate(cut);
                s.push_str(&format!("…(+{} chars)", n - cut));
            }
        }
        Value::Array(a) => {
            let n = a.len();
            if n > 24 {
                a.truncate(24);
                a.push(Value::String(format!("…(+{} items)", n - 24)));
            }
            for x in a.iter_mut() {
                truncate_value(x, max);
            }
        }
        Value::Object(o) => {
            for (_, x) in o.iter_mut() {
                truncate_value(x, max);
            }
        }
        _ => {}
    }
}

/// Run `cases` generated cases of `strat` through `f` with proptest (deterministic seed, shrinking).
/// Returns at most one (shrunk) violation.
pub fn run_prop<C, S, F>(ctx: &mut Ctx, sub: &str, cases: u64, max_shrink: u32, strat: S, f: F) -> Vec<Violation>
where
    C: Debug + Serialize + Clone,
    S: Strategy<Value = C>,
    F: Fn(&mut Ctx, &C) -> Res,
{
    let cases = ctx.share(cases);
    if cases == 0 {
        return vec![];
    }
    let seed = ctx.sub_seed(sub);
    let cfg = Config {
        cases: cases as u32,
        failure_persistence: None,
        rng_algorithm: RngAlgorithm::ChaCha,
        rng_seed: RngSeed::Fixed(seed),
        max_shrink_iters: max_shrink,
        // shrinking is bounded by wall time too: expensive failing cases (a wedged worker costs seconds per attempt)
        // must not push the worker into its watchdog
        max_shrink_time: if ctx.tier == Tier::Quick { 20_000 } else { 90_000 },
        verbose: 0,
        max_local_rejects: 65_536,
        max_global_rejects: 65_536,
        ..Config::default()
    };
    let mut runner = TestRunner::new(cfg);
    let cell = RefCell::new(&mut *ctx);
    let last_viol: RefCell<Option<Viol>> = RefCell::new(None);
    let result = runner.run(&strat, |c| {
        let mut g = cell.borrow_mut();
        let r = std::panic::catch_unwind(std::panic::AssertUnwindSafe(|| f(&mut **g, &c)));
        match r {
            Ok(Ok(())) => Ok(()),
            Ok(Err(v)) => {
                g.counting = false;
                *last_viol.borrow_mut() = Some(v.clone());
                Err(TestCaseError::fail(v.sig))
            }
            Err(p) => {
                g.counting = false;
                Err(TestCaseError::fail(format!("harness-panic:{}", panic_msg(&p))))
            }
        }
    });
    drop(cell);
    let out = match result {
        Ok(()) => vec![],
        Err(TestError::Fail(_, shrunk)) => {
            ctx.counting = false;
            let r = std::panic::catch_unwind(std::panic::AssertUnwindSafe(|| f(ctx, &shrunk)));
            let v = match r {
                Ok(Err(v)) => v,
                Ok(Ok(())) => match last_viol.borrow().clone() {
                    Some(v) => viol(format!("flaky|{}", v.sig), format!("failed during the search but passed when the shrunk case was re-run (non-deterministic); last failure: {}", v.what)),
                    None => viol("flaky", "shrunk case passed when re-run (non-deterministic failure)"),
                },
                Err(p) => viol("harness-panic", panic_msg(&p)),
            };
            vec![Violation {
                sub: sub.to_string(),
                sig: v.sig,
                what: v.what,
                case: serde_json::to_value(&shrunk).unwrap_or(Value::Null),
            }]
        }
        Err(TestError::Abort(r)) => {
            ctx.inconclusive(format!("{}: proptest aborted: {}", sub, r));
            vec![]
        }
    };
    ctx.counting = true;
    out
}

/// Run an enumerated (exhaustive) space: `total` indices, sharded round-robin; first failure stops.
pub fn run_enum<C, G, F>(ctx: &mut Ctx, sub: &str, total: u64, gen: G, f: F) -> Vec<Violation>
where
    C: Serialize,
    G: Fn(u64) -> C,
    F: Fn(&mut Ctx, &C) -> Res,
{
    let mut i = ctx.shard as u64;
    let step = ctx.nshards as u64;
    ctx.exact = true;
    let r = (|| {
    while i < total {
        let c = gen(i);
        let r = std::panic::catch_unwind(std::panic::AssertUnwindSafe(|| f(ctx, &c)));
        let v = match r {
            Ok(Ok(())) => None,
            Ok(Err(v)) => Some(v),
            Err(p) => Some(viol("harness-panic", panic_msg(&p))),
        };
        if let Some(v) = v {
            return vec![Violation {
                sub: sub.to_string(),
                sig: v.sig,
                what: v.what,
                case: serde_json::to_value(&c).unwrap_or(Value::Null),
            }];
        }
        i += step;
    }
    vec![]
    })();
    ctx.exact = false;
    r
}

pub fn replay_case<C: DeserializeOwned, F: Fn(&mut Ctx, &C) -> Res>(ctx: &mut Ctx, case: &Value, f: F) -> Res {
    let c: C = match serde_json::from_value(case.clone()) {
        Ok(c) => c,
        Err(e) => return Err(viol("bad-replay-file", format!("cannot deserialize case: {}", e))),
    };
    match std::panic::catch_unwind(std::panic::AssertUnwindSafe(|| f(ctx, &c))) {
        Ok(r) => r,
        Err(p) => Err(viol("harness-panic", panic_msg(&p))),
    }
}

pub fn panic_msg(p: &Box<dyn std::any::Any + Send>) -> String {
    if let Some(s) = p.downcast_ref::<&str>() {
        s.to_string()
    } else if let Some(s) = p.downcast_ref::<String>() {
        s.clone()
    } else {
        "non-string panic".to_string()
    }
}

thread_local! {
    pub static LAST_PANIC: RefCell<Option<String>> = RefCell::new(None);
}

/// Quiet panic hook: remembers message + location, prints nothing unless RV_VERBOSE is set.
pub fn install_quiet_panic_hook() {
    let verbose = std::env::var("RV_VERBOSE").is_ok();
    std::panic::set_hook(Box::new(move |info| {
        let loc = info.location().map(|l| format!("{}:{}", l.file(), l.line())).unwrap_or_default();
        let msg = if let Some(s) = info.payload().downcast_ref::<&str>() {
            s.to_string()
        } else if let Some(s) = info.payload().downcast_ref::<String>() {
            s.clone()
        } else {
            "?".to_string()
        };
        if verbose {
            eprintln!("[panic] {} at {}", msg, loc);
        }
        LAST_PANIC.with(|l| *l.borrow_mut() = Some(format!("{} at {}", msg, loc)));
    }));
}

/// Run a closure, converting an unwind into Err(location+message).
pub fn no_unwind<T>(f: impl FnOnce() -> T) -> Result<T, String> {
    LAST_PANIC.with(|l| *l.borrow_mut() = None);
    match std::panic::catch_unwind(std::panic::AssertUnwindSafe(f)) {
        Ok(v) => Ok(v),
        Err(p) => {
            let m = LAST_PANIC.with(|l| l.borrow_mut().take()).unwrap_or_else(|| panic_msg(&p));
            Err(m)
        }
    }
}

/// Strip line numbers/volatile parts from a panic description to make a stable signature component.
pub fn panic_site(m: &str) -> String {
    // "msg at file:line" -> "file" + first words of msg
    let (msg, loc) = match m.rfind(" at ") {
        Some(i) => (&m[..i], &m[i + 4..]),
        None => (m, ""),
    };
    let file = loc.split(':').next().unwrap_or("");
    let file = file.rsplit("/src/").next().unwrap_or(file);
    let words: String = msg.chars().filter(|c| !c.is_ascii_digit()).take(40).collect();
    format!("{}|{}", file, words.trim())
}

pub fn fingerprint<H: Hash>(h: &H) -> u64 {
    let mut s = DefaultHasher::new();
    h.hash(&mut s);
    s.finish()
}

#[derive(Debug, Clone, Serialize, Deserialize, Default)]
pub struct WorkerResult {
    pub stats: Stats,
    pub violations: Vec<Violation>,
    pub wall_s: f64,
}

pub fn replay_dir(prop: &str) -> PathBuf {
    PathBuf::from(format!("{}/replays/{}", VERIF_DIR, prop))
}
pub fn violation_dir(prop: &str) -> PathBuf {
    PathBuf::from(format!("{}/out/violations/{}", VERIF_DIR, prop))
}

#[derive(Debug, Clone, Serialize, Deserialize)]
pub struct ReplayFile {
    pub property: String,
    pub sub: String,
    #[serde(default)]
    pub sig: String,
    #[serde(default)]
    pub what: String,
    pub case: Value,
}

/// Give this process (and the children it spawns) a private network namespace with its own loopback, so that
/// concurrently running worker processes can never receive each other's datagrams through recycled ephemeral
/// ports. Returns false if the kernel refuses (the checks still run, sharing the host's loopback).
pub static NET_ISOLATED: std::sync::atomic::AtomicBool = std::sync::atomic::AtomicBool::new(false);

pub fn isolate_network() -> bool {
    let ok = isolate_network_inner();
    NET_ISOLATED.store(ok, std::sync::atomic::Ordering::SeqCst);
    ok
}

fn isolate_network_inner() -> bool {
    #[repr(C)]
    struct IfReq {
        name: [libc::c_char; 16],
        flags: libc::c_short,
        pad: [u8; 22],
    }
    if std::env::var("RV_NO_NETNS").is_ok() {
        return false;
    }
    unsafe {
        if libc::unshare(libc::CLONE_NEWNET) != 0 {
            return false;
        }
        let fd = libc::socket(libc::AF_INET, libc::SOCK_DGRAM, 0);
        if fd < 0 {
            return false;
        }
        let mut ifr = IfReq { name: [0; 16], flags: 0, pad: [0; 22] };
        ifr.name[0] = b'l' as libc::c_char;
        ifr.name[1] = b'o' as libc::c_char;
        let mut ok = libc::ioctl(fd, libc::SIOCGIFFLAGS as _, &mut ifr as *mut IfReq) == 0;
        if ok {
            ifr.flags |= (libc::IFF_UP | libc::IFF_RUNNING) as libc::c_short;
            ok = libc::ioctl(fd, libc::SIOCSIFFLAGS as _, &ifr as *const IfReq) == 0;
        }
        libc::close(fd);
        ok
    }
}
