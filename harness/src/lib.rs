pub mod engine;
pub mod gen;
pub mod props;
pub mod refcodec;
pub mod refcrypto;
pub mod refproto;
pub mod reqgen;
pub mod srvlab;
