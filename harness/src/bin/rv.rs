//! rv check <id> [--tier quick|thorough]   — parent: replays, worker fan-out, evidence, verdict lines
//! rv worker <id> --tier T --seed S --shard I --nshards N — one shard, prints a JSON WorkerResult
//! rv replay <file>                         — re-execute one saved case through the same oracle (strict)

use rv::engine::*;
use rv::props;
use serde_json::{json, Value};
use std::collections::{BTreeMap, HashSet};
use std::io::Read;
use std::process::{Command, Stdio};
use std::time::{Duration, Instant};

fn arg(args: &[String], name: &str) -> Option<String> {
    args.iter().position(|a| a == name).and_then(|i| args.get(i + 1).cloned())
}

fn main() {
    let args: Vec<String> = std::env::args().collect();
    if args.len() < 3 {
        eprintln!("usage: rv check|worker|replay ...");
        std::process::exit(2);
    }
    install_quiet_panic_hook();
    let code = match args[1].as_str() {
        "check" => check(&args),
        "worker" => worker(&args),
        "replay" => replay(&args),
        _ => 2,
    };
    std::process::exit(code);
}

fn seed_from_env() -> u64 {
    std::env::var("VERIF_SEED").ok().and_then(|s| s.trim().parse::<i64>().ok()).map(|v| v as u64).unwrap_or(1)
}

fn worker(args: &[String]) -> i32 {
    let id = &args[2];
    let def = match props::find(id) {
        Some(d) => d,
        None => return 2,
    };
    let tier = Tier::parse(&arg(args, "--tier").unwrap_or_default());
    let seed: u64 = arg(args, "--seed").and_then(|s| s.parse().ok()).unwrap_or(1);
    let shard: u32 = arg(args, "--shard").and_then(|s| s.parse().ok()).unwrap_or(0);
    let nshards: u32 = arg(args, "--nshards").and_then(|s| s.parse().ok()).unwrap_or(1);
    let start = Instant::now();
    let mut ctx = Ctx::new(id, tier, seed, shard, nshards);
    let violations = (def.run)(&mut ctx);
    let res = WorkerResult { stats: ctx.stats, violations, wall_s: start.elapsed().as_secs_f64() };
    println!("RVRESULT {}", serde_json::to_string(&res).unwrap());
    0
}

fn replay(args: &[String]) -> i32 {
    let path = &args[2];
    let txt = match std::fs::read_to_string(path) {
        Ok(t) => t,
        Err(e) => {
            eprintln!("cannot read {}: {}", path, e);
            return 2;
        }
    };
    let rf: ReplayFile = match serde_json::from_str(&txt) {
        Ok(r) => r,
        Err(e) => {
            eprintln!("cannot parse {}: {}", path, e);
            return 2;
        }
    };
    let def = match props::find(&rf.property) {
        Some(d) => d,
        None => return 2,
    };
    let tier = Tier::parse(&std::env::var("VERIF_TIER").unwrap_or_default());
    let mut ctx = Ctx::new(&rf.property, tier, seed_from_env(), 0, 1);
    ctx.strict = std::env::var("RV_TOLERATE_KNOWN").is_err();
    match (def.replay)(&mut ctx, &rf.sub, &rf.case) {
        Ok(()) => {
            println!("replay {}: property {} held", path, rf.property);
            0
        }
        Err(v) => {
            println!("replay {}: {} -- {}", path, v.sig, v.what);
            println!("VIOLATION property={} replay={}", rf.property, path);
            1
        }
    }
}

fn check(args: &[String]) -> i32 {
    let id = args[2].clone();
    let def = match props::find(&id) {
        Some(d) => d,
        None => {
            eprintln!("unknown property {}", id);
            return 2;
        }
    };
    let tier = Tier::parse(&arg(args, "--tier").or_else(|| std::env::var("VERIF_TIER").ok()).unwrap_or_default());
    let seed = seed_from_env();
    let nshards: u32 = std::env::var("RV_SHARDS").ok().and_then(|s| s.parse().ok()).unwrap_or_else(|| (def.shards)(tier));
    let start = Instant::now();
    let known_open: Vec<KnownFinding> = load_known().into_iter().filter(|k| k.property == id && k.status == "open").collect();

    let mut violations: Vec<(Violation, String)> = vec![]; // (violation, replay path)
    let mut merged = Stats::default();
    let mut inconclusive: Vec<String> = vec![];

    // 1. regression tier: committed replay files
    let mut replayed = 0u64;
    if let Ok(rd) = std::fs::read_dir(replay_dir(&id)) {
        let mut files: Vec<_> = rd.filter_map(|e| e.ok()).map(|e| e.path()).filter(|p| p.extension().map(|x| x == "json").unwrap_or(false)).collect();
        files.sort();
        let mut ctx = Ctx::new(&id, tier, seed, 0, 1);
        for f in files {
            let rf: ReplayFile = match std::fs::read_to_string(&f).ok().and_then(|t| serde_json::from_str(&t).ok()) {
                Some(r) => r,
                None => {
                    inconclusive.push(format!("unreadable replay file {}", f.display()));
                    continue;
                }
            };
            replayed += 1;
            if let Err(v) = (def.replay)(&mut ctx, &rf.sub, &rf.case) {
                violations.push((Violation { sub: rf.sub.clone(), sig: v.sig, what: v.what, case: rf.case.clone() }, f.display().to_string()));
            }
        }
        merge_stats(&mut merged, ctx.stats);
    }

    // 2. workers
    let exe = std::env::current_exe().unwrap();
    let logdir = format!("{}/out/logs", VERIF_DIR);
    let _ = std::fs::create_dir_all(&logdir);
    let timeout = Duration::from_secs((def.timeout_s)(tier));
    let mut children = vec![];
    for i in 0..nshards {
        let log = std::fs::File::create(format!("{}/{}.shard{}.log", logdir, id, i)).unwrap();
        let child = Command::new(&exe)
            .args(["worker", &id, "--tier", tier.name(), "--seed", &seed.to_string(), "--shard", &i.to_string(), "--nshards", &nshards.to_string()])
            .env("RUST_BACKTRACE", "0")
            .stdin(Stdio::null())
            .stdout(Stdio::piped())
            .stderr(Stdio::from(log))
            .spawn()
            .expect("spawn worker");
        children.push((i, child));
    }
    // reader threads so that large outputs do not block
    let mut handles = vec![];
    for (i, mut child) in children {
        let mut out = child.stdout.take().unwrap();
        let h = std::thread::spawn(move || {
            let mut s = String::new();
            let _ = out.read_to_string(&mut s);
            s
        });
        handles.push((i, child, h));
    }
    let mut worker_wall = 0f64;
    for (i, mut child, h) in handles {
        let mut status = None;
        loop {
            match child.try_wait() {
                Ok(Some(st)) => {
                    status = Some(st);
                    break;
                }
                Ok(None) => {
                    if start.elapsed() > timeout {
                        let _ = child.kill();
                        let _ = child.wait();
                        break;
                    }
                    std::thread::sleep(Duration::from_millis(20));
                }
                Err(_) => break,
            }
        }
        let out = h.join().unwrap_or_default();
        let line = out.lines().rev().find(|l| l.starts_with("RVRESULT "));
        match (status, line) {
            (Some(st), Some(l)) if st.success() => match serde_json::from_str::<WorkerResult>(&l[9..]) {
                Ok(r) => {
                    worker_wall += r.wall_s;
                    for v in r.violations {
                        let path = save_violation(&id, &v);
                        violations.push((v, path));
                    }
                    merge_stats(&mut merged, r.stats);
                }
                Err(e) => inconclusive.push(format!("shard {}: unparsable result: {}", i, e)),
            },
            (None, _) => inconclusive.push(format!("shard {}: watchdog fired after {:?}", i, timeout)),
            (Some(st), _) => inconclusive.push(format!("shard {}: worker exited {:?} without result (see {}/{}.shard{}.log)", i, st.code(), logdir, id, i)),
        }
    }
    inconclusive.extend(merged.inconclusive.iter().cloned());

    // 3. verdict lines
    for (sig, (count, example)) in &merged.known {
        let what = known_open.iter().find(|k| &k.signature == sig).map(|k| k.what.clone()).unwrap_or_default();
        println!("KNOWN-FINDING: property={} {} [signature={} observed={} e.g. {}]", id, what, sig, count, truncate(example, 300));
    }
    // one VIOLATION line per distinct signature, pointing at the smallest saved case (all are saved)
    let mut seen = HashSet::new();
    let mut order: Vec<usize> = (0..violations.len()).collect();
    order.sort_by_key(|i| violations[*i].0.case.to_string().len());
    for i in order {
        let (v, path) = &violations[i];
        if seen.insert(v.sig.clone()) {
            println!("  violated: sub={} sig={} :: {}", v.sub, v.sig, truncate(&v.what, 600));
            println!("VIOLATION property={} replay={}", id, path);
        }
    }

    // 4. evidence
    let wall = start.elapsed().as_secs_f64();
    let distinct_nt = merged.nt.len() as u64 + merged.nt_exact;
    let mut coverage = json!({
        "evaluations": merged.evals,
        "distinct_nontrivial": distinct_nt,
        "rule": def.rule,
        "samples": merged.samples,
        "classes": merged.classes,
        "replayed_regression_files": replayed,
        "worker_processes": nshards,
        "worker_cpu_s": (worker_wall * 100.0).round() / 100.0,
        "known_findings_observed": merged.known.iter().map(|(k, v)| (k.clone(), json!(v.0))).collect::<BTreeMap<_, _>>(),
        "notes": merged.notes,
        "inconclusive": inconclusive,
    });
    if !merged.exhaustive_spaces.is_empty() {
        coverage["exhaustive"] = json!(true);
        coverage["exhaustive_spaces"] = json!(merged.exhaustive_spaces);
    }
    if coverage["samples"].as_array().map(|a| a.is_empty()).unwrap_or(true) {
        coverage["samples"] = json!([{"kind": "none", "case": "no sample recorded"}]);
    }
    let ev = json!({
        "property_id": id,
        "tier": tier.name(),
        "seed": seed as i64,
        "level": def.level,
        "coverage": coverage,
        "assumptions": def.assumptions,
        "wall_s": (wall * 100.0).round() / 100.0,
        "violations": violations.len(),
    });
    let evdir = format!("{}/evidence", VERIF_DIR);
    let _ = std::fs::create_dir_all(&evdir);
    let evpath = format!("{}/{}.json", evdir, id);
    let tmp = format!("{}.tmp", evpath);
    std::fs::write(&tmp, serde_json::to_string_pretty(&ev).unwrap()).unwrap();
    std::fs::rename(&tmp, &evpath).unwrap();

    println!(
        "{} {} seed={} evaluations={} distinct_nontrivial={} violations={} known={} inconclusive={} wall={:.1}s",
        id,
        tier.name(),
        seed,
        merged.evals,
        distinct_nt,
        violations.len(),
        merged.known.len(),
        inconclusive.len(),
        wall
    );
    for m in &inconclusive {
        println!("  inconclusive: {}", m);
    }
    if !violations.is_empty() {
        1
    } else if !inconclusive.is_empty() {
        2
    } else {
        0
    }
}

fn truncate(s: &str, n: usize) -> String {
    if s.len() <= n {
        s.to_string()
    } else {
        let mut c = n;
        while !s.is_char_boundary(c) {
            c -= 1;
        }
        format!("{}…", &s[..c])
    }
}

fn merge_stats(into: &mut Stats, s: Stats) {
    into.evals += s.evals;
    into.nt.extend(s.nt);
    into.nt_exact += s.nt_exact;
    for (k, v) in s.classes {
        *into.classes.entry(k).or_insert(0) += v;
    }
    for x in s.samples {
        if into.samples.len() < 24 {
            into.samples.push(x);
        }
    }
    for (k, v) in s.known {
        let e = into.known.entry(k).or_insert((0, v.1.clone()));
        e.0 += v.0;
    }
    into.exhaustive_spaces.extend(s.exhaustive_spaces);
    into.notes.extend(s.notes);
    into.inconclusive.extend(s.inconclusive);
}

fn save_violation(id: &str, v: &Violation) -> String {
    let dir = violation_dir(id);
    let _ = std::fs::create_dir_all(&dir);
    let rf = ReplayFile { property: id.to_string(), sub: v.sub.clone(), sig: v.sig.clone(), what: v.what.clone(), case: v.case.clone() };
    let body = serde_json::to_string_pretty(&rf).unwrap();
    let name = format!("{}-{:016x}.json", v.sub, fingerprint(&body));
    let path = dir.join(name);
    let _ = std::fs::write(&path, body);
    path.display().to_string()
}

#[allow(dead_code)]
fn unused(_: Value) {}
