//! rv check <id> [--tier quick|thorough]   — parent: replays, worker fan-out, evidence, verdict lines
//! rv worker <id> --tier T --seed S --shard I --nshards N — one shard, prints a JSON WorkerResult
//! rv replay <file>                         — re-execute one saved case through the same oracle (strict)

use rv::engine::*;
use rv::props;
use serde_json::{json, Value};
use std::collections::{BTreeMap, HashSet};
use std::io::Read;
use std::process::{Command, Stdio};
use std::time::{Duration, Instant};

fn arg(args: &[String], name: &str) -> Option<String> {
    args.iter().position(|a| a == name).and_then(|i| args.get(i + 1).cloned())
}

fn main() {
    let args: Vec<String> = std::env::args().collect();
    if args.len() >= 3 && args[1] == "probe-display" {
        // child process of the C06 deep-nesting probe: decode + Display a chain of `depth` nested messages on a thread
        // with the default 2 MiB stack of a spawned Rust thread; prints "displayed <n> bytes" if it returns
        let depth: usize = args[2].parse().unwrap_or(1);
        let bytes = rv::props::codec::nested_chain(depth);
        let h = std::thread::Builder::new().name("display-probe".into()).stack_size(2 << 20).spawn(move || match roughenough::RtMessage::from_bytes(&bytes) {
            Ok(m) => format!("{}", m).len(),
            Err(_) => 0,
        });
        match h.unwrap().join() {
            Ok(n) => {
                println!("displayed {} bytes", n);
                std::process::exit(0);
            }
            Err(_) => {
                println!("panicked");
                std::process::exit(3);
            }
        }
    }
    if args.len() >= 2 && args[1] == "gen-corpus" {
        install_quiet_panic_hook();
        std::process::exit(gen_corpus());
    }
    if args.len() < 3 {
        eprintln!("usage: rv check|worker|replay ...");
        std::process::exit(2);
    }
    install_quiet_panic_hook();
    let code = match args[1].as_str() {
        "check" => check(&args),
        "worker" => worker(&args),
        "replay" => replay(&args),
        "gen-corpus" => gen_corpus(),
        _ => 2,
    };
    std::process::exit(code);
}

/// (re)create the small committed seed corpora for the fuzz targets from the reference responder
fn gen_corpus() -> i32 {
    use rv::refcodec as rc;
    use rv::refproto::*;
    let base = format!("{}/corpus", VERIF_DIR);
    let put = |target: &str, name: &str, bytes: &[u8]| {
        let d = format!("{}/{}", base, target);
        let _ = std::fs::create_dir_all(&d);
        std::fs::write(format!("{}/{}", d, name), bytes).unwrap();
    };
    let resp = Responder::new(&[1u8; 32], &[2u8; 32]);
    let creq = build_request(Proto::Classic, &[0xaa; 64], 1024, &[], None);
    let ireq = build_request(Proto::Ietf, &[0xbb; 32], 1024, &[VER_DRAFT13], None);
    let ireq_srv = build_request(Proto::Ietf, &[0xcc; 32], 1028, &[1, VER_DRAFT13], Some(&[0x11; 32]));
    let cresp = resp.respond_batch(Proto::Classic, &[creq.clone(), filler_request(Proto::Classic, 1), filler_request(Proto::Classic, 2)], 1_700_000_000_000_000);
    let iresp = resp.respond_batch(Proto::Ietf, &[ireq.clone(), filler_request(Proto::Ietf, 1)], 1_700_000_000);
    // codec_diff: messages of several shapes
    put("codec_diff", "classic_request", &creq);
    put("codec_diff", "ietf_request_payload", &ireq[12..]);
    put("codec_diff", "classic_response", &cresp[0].assemble());
    put("codec_diff", "ietf_response_payload", &iresp[1].assemble()[12..]);
    put("codec_diff", "cert", &cresp[0].cert().encode());
    put("codec_diff", "srep", &iresp[0].srep.encode());
    put("codec_diff", "empty", &[0, 0, 0, 0]);
    put("codec_diff", "single", &rc::Msg::new().with(rc::NONC, &[1, 2, 3, 4]).encode());
    // request_classify
    put("request_classify", "classic", &creq);
    put("request_classify", "ietf", &ireq);
    put("request_classify", "ietf_srv", &ireq_srv);
    put("request_classify", "classic_1500", &build_request(Proto::Classic, &[0xdd; 64], 1500, &[], None));
    // server_seq: [len_lo, len_hi, flags] + body records
    let rec = |flags: u8, body: &[u8]| {
        let mut v = vec![(body.len() & 0xff) as u8, (body.len() >> 8) as u8, flags];
        v.extend_from_slice(body);
        v
    };
    let mut s1 = rec(1, &[0x41; 64]);
    s1.extend(rec(2, &[0x42; 32]));
    s1.extend(rec(0, &[0u8; 16]));
    put("server_seq", "mixed", &s1);
    let mut s2 = vec![];
    for k in 0..9u8 {
        s2.extend(rec(if k % 2 == 0 { 1 } else { 2 }, &[k; 64]));
    }
    put("server_seq", "burst9", &s2);
    let mut s3 = rec(0x81, &[0x43; 112]);
    s3.extend(rec(0x82, &[0x44; 80]));
    s3.extend(rec(3, &[0x45; 8]));
    put("server_seq", "patched_headers", &s3);
    // envelope_blob: edit scripts against the genuine blob and raw blobs
    put("envelope_blob", "edit1", &[1, 0, 0, 1]);
    put("envelope_blob", "edit2", &[1, 0, 30, 0x80, 0, 60, 1]);
    put("envelope_blob", "noedit", &[1]);
    put("envelope_blob", "raw", &{
        let mut v = vec![0u8, 24, 0, 12, 0];
        v.extend_from_slice(&[7u8; 24 + 12 + 40 + 16]);
        v
    });
    // merkle_ops / sign_chunks: structured headers followed by data
    put("merkle_ops", "two_batches", &[1, 1, 5, 3, 1, 2, 3, 0, 2, 9, 9, 1, 7, 4, 1, 1, 1, 1, 2, 3, 5, 5, 5]);
    put("merkle_ops", "classic_three", &[0, 6, 9, 1, 1, 1, 2, 1, 3, 0, 0, 2, 4, 4, 8, 1, 1, 1, 1, 1, 1, 1, 1]);
    let mut sc = vec![9u8; 32];
    sc.extend_from_slice(&[2, 3, 1, 2, 3, 0, 1, 4, 9, 9, 9, 9, 1, 2, 7, 7]);
    put("sign_chunks", "two_messages", &sc);
    let mut sc2 = vec![0x31u8; 32];
    sc2[0] = 1;
    sc2.extend_from_slice(&[1, 5, 1, 2, 3, 4, 5]);
    put("sign_chunks", "sigbit", &sc2);
    // self-check: every seed input passes its target
    let mut bad = 0;
    for (target, _) in rv::fuzzapi::TARGETS.iter() {
        if let Ok(rd) = std::fs::read_dir(format!("{}/{}", base, target)) {
            for e in rd.flatten() {
                let b = std::fs::read(e.path()).unwrap();
                if let Err(m) = rv::fuzzapi::run_target(target, &b) {
                    println!("seed {} fails its own target: {}", e.path().display(), m);
                    bad += 1;
                }
            }
        }
    }
    println!("corpus written to {} ({} self-check failures)", base, bad);
    if bad == 0 { 0 } else { 1 }
}

fn seed_from_env() -> u64 {
    std::env::var("VERIF_SEED").ok().and_then(|s| s.trim().parse::<i64>().ok()).map(|v| v as u64).unwrap_or(1)
}

fn worker(args: &[String]) -> i32 {
    let id = &args[2];
    let def = match props::find(id) {
        Some(d) => d,
        None => return 2,
    };
    let tier = Tier::parse(&arg(args, "--tier").unwrap_or_default());
    let seed: u64 = arg(args, "--seed").and_then(|s| s.parse().ok()).unwrap_or(1);
    let shard: u32 = arg(args, "--shard").and_then(|s| s.parse().ok()).unwrap_or(0);
    let nshards: u32 = arg(args, "--nshards").and_then(|s| s.parse().ok()).unwrap_or(1);
    let start = Instant::now();
    let mut ctx = Ctx::new(id, tier, seed, shard, nshards);
    if !isolate_network() && shard == 0 {
        ctx.note("private network namespace not available: worker processes share the host loopback");
    }
    let violations = (def.run)(&mut ctx);
    let res = WorkerResult { stats: ctx.stats, violations, wall_s: start.elapsed().as_secs_f64() };
    println!("RVRESULT {}", serde_json::to_string(&res).unwrap());
    0
}

fn replay(args: &[String]) -> i32 {
    let path = &args[2];
    let txt = match std::fs::read_to_string(path) {
        Ok(t) => t,
        Err(e) => {
            eprintln!("cannot read {}: {}", path, e);
            return 2;
        }
    };
    let rf: ReplayFile = match serde_json::from_str(&txt) {
        Ok(r) => r,
        Err(e) => {
            eprintln!("cannot parse {}: {}", path, e);
            return 2;
        }
    };
    isolate_network();
    let def = match props::find(&rf.property) {
        Some(d) => d,
        None => return 2,
    };
    if let Some(target) = rf.sub.strip_prefix("fuzz:") {
        if std::env::var("RV_TOLERATE_KNOWN").is_err() {
            std::env::set_var("RV_FUZZ_STRICT", "1");
        }
        let bytes = rf.case.get("bytes").and_then(|b| b.as_str()).map(rv::refcodec::unhex).unwrap_or_default();
        return match rv::fuzzapi::run_target(target, &bytes) {
            Ok(()) => {
                println!("replay {}: property {} held", path, rf.property);
                0
            }
            Err(m) => {
                println!("replay {}: {}", path, m);
                println!("VIOLATION property={} replay={}", rf.property, path);
                1
            }
        };
    }
    let tier = Tier::parse(&std::env::var("VERIF_TIER").unwrap_or_default());
    let mut ctx = Ctx::new(&rf.property, tier, seed_from_env(), 0, 1);
    ctx.strict = std::env::var("RV_TOLERATE_KNOWN").is_err();
    match (def.replay)(&mut ctx, &rf.sub, &rf.case) {
        Ok(()) => {
            println!("replay {}: property {} held", path, rf.property);
            0
        }
        Err(v) => {
            println!("replay {}: {} -- {}", path, v.sig, v.what);
            println!("VIOLATION property={} replay={}", rf.property, path);
            1
        }
    }
}

fn check(args: &[String]) -> i32 {
    let id = args[2].clone();
    let def = match props::find(&id) {
        Some(d) => d,
        None => {
            eprintln!("unknown property {}", id);
            return 2;
        }
    };
    let tier = Tier::parse(&arg(args, "--tier").or_else(|| std::env::var("VERIF_TIER").ok()).unwrap_or_default());
    let seed = seed_from_env();
    let nshards: u32 = std::env::var("RV_SHARDS").ok().and_then(|s| s.parse().ok()).unwrap_or_else(|| (def.shards)(tier));
    let start = Instant::now();
    let known_open: Vec<KnownFinding> = load_known().into_iter().filter(|k| k.property == id && k.status == "open").collect();

    let mut violations: Vec<(Violation, String)> = vec![]; // (violation, replay path)
    let mut merged = Stats::default();
    let mut inconclusive: Vec<String> = vec![];

    // 1. regression tier: committed replay files (run in this process, in a private network namespace)
    isolate_network();
    let mut replayed = 0u64;
    if let Ok(rd) = std::fs::read_dir(replay_dir(&id)) {
        let mut files: Vec<_> = rd.filter_map(|e| e.ok()).map(|e| e.path()).filter(|p| p.extension().map(|x| x == "json").unwrap_or(false)).collect();
        files.sort();
        let mut ctx = Ctx::new(&id, tier, seed, 0, 1);
        for f in files {
            let rf: ReplayFile = match std::fs::read_to_string(&f).ok().and_then(|t| serde_json::from_str(&t).ok()) {
                Some(r) => r,
                None => {
                    inconclusive.push(format!("unreadable replay file {}", f.display()));
                    continue;
                }
            };
            replayed += 1;
            if let Some(target) = rf.sub.strip_prefix("fuzz:") {
                let bytes = rf.case.get("bytes").and_then(|b| b.as_str()).map(rv::refcodec::unhex).unwrap_or_default();
                if let Err(m) = rv::fuzzapi::run_target(target, &bytes) {
                    violations.push((Violation { sub: rf.sub.clone(), sig: format!("fuzz-regression|{}", target), what: m, case: rf.case.clone() }, f.display().to_string()));
                }
                continue;
            }
            if let Err(v) = (def.replay)(&mut ctx, &rf.sub, &rf.case) {
                violations.push((Violation { sub: rf.sub.clone(), sig: v.sig, what: v.what, case: rf.case.clone() }, f.display().to_string()));
            }
        }
        merge_stats(&mut merged, ctx.stats);
    }

    // 2. workers
    let exe = std::env::current_exe().unwrap();
    let logdir = format!("{}/out/logs", VERIF_DIR);
    let _ = std::fs::create_dir_all(&logdir);
    let timeout = Duration::from_secs((def.timeout_s)(tier));
    let mut children = vec![];
    for i in 0..nshards {
        let log = std::fs::File::create(format!("{}/{}.shard{}.log", logdir, id, i)).unwrap();
        let child = Command::new(&exe)
            .args(["worker", &id, "--tier", tier.name(), "--seed", &seed.to_string(), "--shard", &i.to_string(), "--nshards", &nshards.to_string()])
            .env("RUST_BACKTRACE", "0")
            .stdin(Stdio::null())
            .stdout(Stdio::piped())
            .stderr(Stdio::from(log))
            .spawn()
            .expect("spawn worker");
        children.push((i, child));
    }
    // reader threads so that large outputs do not block
    let mut handles = vec![];
    for (i, mut child) in children {
        let mut out = child.stdout.take().unwrap();
        let h = std::thread::spawn(move || {
            let mut s = String::new();
            let _ = out.read_to_string(&mut s);
            s
        });
        handles.push((i, child, h));
    }
    let mut worker_wall = 0f64;
    for (i, mut child, h) in handles {
        let mut status = None;
        loop {
            match child.try_wait() {
                Ok(Some(st)) => {
                    status = Some(st);
                    break;
                }
                Ok(None) => {
                    if start.elapsed() > timeout {
                        let _ = child.kill();
                        let _ = child.wait();
                        break;
                    }
                    std::thread::sleep(Duration::from_millis(20));
                }
                Err(_) => break,
            }
        }
        let out = h.join().unwrap_or_default();
        let line = out.lines().rev().find(|l| l.starts_with("RVRESULT "));
        match (status, line) {
            (Some(st), Some(l)) if st.success() => match serde_json::from_str::<WorkerResult>(&l[9..]) {
                Ok(r) => {
                    worker_wall += r.wall_s;
                    for v in r.violations {
                        let path = save_violation(&id, &v);
                        violations.push((v, path));
                    }
                    merge_stats(&mut merged, r.stats);
                }
                Err(e) => inconclusive.push(format!("shard {}: unparsable result: {}", i, e)),
            },
            (None, _) => inconclusive.push(format!("shard {}: watchdog fired after {:?}", i, timeout)),
            (Some(st), _) => inconclusive.push(format!("shard {}: worker exited {:?} without result (see {}/{}.shard{}.log)", i, st.code(), logdir, id, i)),
        }
    }
    inconclusive.extend(merged.inconclusive.iter().cloned());

    // 2b. coverage-guided campaigns (thorough tier only)
    let mut fuzz_report = vec![];
    if tier == Tier::Thorough && std::env::var("RV_NO_FUZZ").is_err() {
        for (target, props) in rv::fuzzapi::TARGETS.iter() {
            if !props.contains(&id.as_str()) {
                continue;
            }
            match run_fuzz_campaign(&id, target, seed) {
                Ok((report, crashes)) => {
                    fuzz_report.push(report);
                    for (v, path) in crashes {
                        violations.push((v, path));
                    }
                }
                Err(e) => inconclusive.push(format!("fuzz target {}: {}", target, e)),
            }
        }
    }

    // failures of the machinery itself (a positive control that did not fire, the two oracles disagreeing with each
    // other, a panic inside harness code) say nothing about the property: inconclusive, never a violation
    let is_harness = |sig: &str| {
        let s = sig.strip_prefix("flaky|").unwrap_or(sig);
        s.starts_with("positive-control-failed") || s.starts_with("oracle-disagreement") || s.starts_with("harness-") || s.starts_with("bad-replay-file")
    };
    let (machinery, real): (Vec<_>, Vec<_>) = violations.into_iter().partition(|(v, _)| is_harness(&v.sig));
    let violations = real;
    for (v, path) in &machinery {
        inconclusive.push(format!("machinery failure (not a property verdict): sub={} sig={} :: {} [case saved at {}]", v.sub, v.sig, truncate(&v.what, 300), path));
    }

    // 3. verdict lines
    for (sig, (count, example)) in &merged.known {
        let what = known_open.iter().find(|k| &k.signature == sig).map(|k| k.what.clone()).unwrap_or_default();
        println!("KNOWN-FINDING: property={} {} [signature={} observed={} e.g. {}]", id, what, sig, count, truncate(example, 300));
    }
    // one VIOLATION line per distinct signature, pointing at the smallest saved case (all are saved)
    let mut seen = HashSet::new();
    let mut order: Vec<usize> = (0..violations.len()).collect();
    order.sort_by_key(|i| violations[*i].0.case.to_string().len());
    for i in order {
        let (v, path) = &violations[i];
        if seen.insert(v.sig.clone()) {
            println!("  violated: sub={} sig={} :: {}", v.sub, v.sig, truncate(&v.what, 600));
            println!("VIOLATION property={} replay={}", id, path);
        }
    }

    // 4. evidence
    let wall = start.elapsed().as_secs_f64();
    let distinct_nt = merged.nt.len() as u64 + merged.nt_exact;
    let mut coverage = json!({
        "evaluations": merged.evals,
        "distinct_nontrivial": distinct_nt,
        "rule": def.rule,
        "samples": merged.samples,
        "classes": merged.classes,
        "replayed_regression_files": replayed,
        "worker_processes": nshards,
        "worker_cpu_s": (worker_wall * 100.0).round() / 100.0,
        "known_findings_observed": merged.known.iter().map(|(k, v)| (k.clone(), json!(v.0))).collect::<BTreeMap<_, _>>(),
        "notes": merged.notes,
        "inconclusive": inconclusive,
        "fuzz_campaigns": fuzz_report,
    });
    if !merged.exhaustive_spaces.is_empty() {
        coverage["exhaustive"] = json!(true);
        coverage["exhaustive_spaces"] = json!(merged.exhaustive_spaces);
    }
    if coverage["samples"].as_array().map(|a| a.is_empty()).unwrap_or(true) {
        coverage["samples"] = json!([{"kind": "none", "case": "no sample recorded"}]);
    }
    let ev = json!({
        "property_id": id,
        "tier": tier.name(),
        "seed": seed as i64,
        "level": def.level,
        "coverage": coverage,
        "assumptions": def.assumptions,
        "wall_s": (wall * 100.0).round() / 100.0,
        "violations": violations.len(),
    });
    let evdir = format!("{}/evidence", VERIF_DIR);
    let _ = std::fs::create_dir_all(&evdir);
    let evpath = format!("{}/{}.json", evdir, id);
    let tmp = format!("{}.tmp", evpath);
    std::fs::write(&tmp, serde_json::to_string_pretty(&ev).unwrap()).unwrap();
    std::fs::rename(&tmp, &evpath).unwrap();

    println!(
        "{} {} seed={} evaluations={} distinct_nontrivial={} violations={} known={} inconclusive={} wall={:.1}s",
        id,
        tier.name(),
        seed,
        merged.evals,
        distinct_nt,
        violations.len(),
        merged.known.len(),
        inconclusive.len(),
        wall
    );
    for m in &inconclusive {
        println!("  inconclusive: {}", m);
    }
    if !violations.is_empty() {
        1
    } else if !inconclusive.is_empty() {
        2
    } else {
        0
    }
}

fn truncate(s: &str, n: usize) -> String {
    if s.len() <= n {
        s.to_string()
    } else {
        let mut c = n;
        while !s.is_char_boundary(c) {
            c -= 1;
        }
        format!("{}…", &s[..c])
    }
}

fn merge_stats(into: &mut Stats, s: Stats) {
    into.evals += s.evals;
    into.nt.extend(s.nt);
    into.nt_exact += s.nt_exact;
    for (k, v) in s.classes {
        *into.classes.entry(k).or_insert(0) += v;
    }
    for x in s.samples {
        if into.samples.len() < 24 {
            into.samples.push(x);
        }
    }
    for (k, v) in s.known {
        let e = into.known.entry(k).or_insert((0, v.1.clone()));
        e.0 += v.0;
    }
    into.exhaustive_spaces.extend(s.exhaustive_spaces);
    into.notes.extend(s.notes);
    into.inconclusive.extend(s.inconclusive);
}

fn save_violation(id: &str, v: &Violation) -> String {
    let dir = violation_dir(id);
    let _ = std::fs::create_dir_all(&dir);
    let rf = ReplayFile { property: id.to_string(), sub: v.sub.clone(), sig: v.sig.clone(), what: v.what.clone(), case: v.case.clone() };
    let body = serde_json::to_string_pretty(&rf).unwrap();
    let name = format!("{}-{:016x}.json", v.sub, fingerprint(&body));
    let path = dir.join(name);
    let _ = std::fs::write(&path, body);
    path.display().to_string()
}

/// Build (if needed) and run one libFuzzer campaign; returns a report and the crashes converted to replay files.
fn run_fuzz_campaign(id: &str, target: &str, seed: u64) -> Result<(Value, Vec<(Violation, String)>), String> {
    let secs: u64 = std::env::var("RV_FUZZ_SECS").ok().and_then(|s| s.parse().ok()).unwrap_or(150);
    let procs: u64 = std::env::var("RV_FUZZ_PROCS").ok().and_then(|s| s.parse().ok()).unwrap_or(4);
    let hdir = format!("{}/harness", VERIF_DIR);
    let logdir = format!("{}/out/logs", VERIF_DIR);
    let build = Command::new("cargo")
        .args(["+nightly", "fuzz", "build", target])
        .current_dir(&hdir)
        .env("CARGO_NET_OFFLINE", "true")
        .stdin(Stdio::null())
        .stdout(Stdio::from(std::fs::File::create(format!("{}/fuzz-build-{}.log", logdir, target)).map_err(|e| e.to_string())?))
        .stderr(Stdio::from(std::fs::File::create(format!("{}/fuzz-build-{}.err", logdir, target)).map_err(|e| e.to_string())?))
        .status()
        .map_err(|e| format!("cargo fuzz build: {}", e))?;
    if !build.success() {
        return Err(format!("cargo +nightly fuzz build {} failed (see {}/fuzz-build-{}.err)", target, logdir, target));
    }
    let bin = format!("{}/target/x86_64-unknown-linux-gnu/release/{}", VERIF_DIR, target);
    let work = format!("{}/out/fuzz/{}-{}", VERIF_DIR, target, id);
    let _ = std::fs::remove_dir_all(&work);
    let corpus = format!("{}/corpus", work);
    let artifacts = format!("{}/artifacts/", work);
    std::fs::create_dir_all(&corpus).map_err(|e| e.to_string())?;
    std::fs::create_dir_all(&artifacts).map_err(|e| e.to_string())?;
    // fresh working corpus = committed seed corpus (valid examples) + whatever the fuzzer finds
    let mut seeds = 0;
    if let Ok(rd) = std::fs::read_dir(format!("{}/corpus/{}", VERIF_DIR, target)) {
        for e in rd.flatten() {
            if std::fs::copy(e.path(), format!("{}/{}", corpus, e.file_name().to_string_lossy())).is_ok() {
                seeds += 1;
            }
        }
    }
    let start = Instant::now();
    let mut kids = vec![];
    for j in 0..procs {
        let log = std::fs::File::create(format!("{}/fuzz-{}-{}-{}.log", logdir, target, id, j)).map_err(|e| e.to_string())?;
        let child = Command::new(&bin)
            .arg(&corpus)
            .args([
                format!("-max_total_time={}", secs),
                format!("-seed={}", seed.wrapping_mul(31).wrapping_add(j + 1) % 4_000_000_000 + 1),
                "-len_control=0".to_string(),
                "-max_len=4096".to_string(),
                "-timeout=30".to_string(),
                "-rss_limit_mb=4096".to_string(),
                "-print_final_stats=1".to_string(),
                format!("-artifact_prefix={}", artifacts),
            ])
            .env("RUST_BACKTRACE", "0")
            .stdin(Stdio::null())
            .stdout(Stdio::null())
            .stderr(Stdio::from(log))
            .spawn()
            .map_err(|e| format!("spawn {}: {}", bin, e))?;
        kids.push((j, child));
    }
    let mut execs = 0u64;
    for (j, mut c) in kids {
        let deadline = Duration::from_secs(secs + 120);
        loop {
            match c.try_wait() {
                Ok(Some(_)) => break,
                Ok(None) => {
                    if start.elapsed() > deadline {
                        let _ = c.kill();
                        let _ = c.wait();
                        break;
                    }
                    std::thread::sleep(Duration::from_millis(200));
                }
                Err(_) => break,
            }
        }
        if let Ok(txt) = std::fs::read_to_string(format!("{}/fuzz-{}-{}-{}.log", logdir, target, id, j)) {
            for l in txt.lines() {
                if let Some(n) = l.strip_prefix("stat::number_of_executed_units:") {
                    execs += n.trim().parse::<u64>().unwrap_or(0);
                }
            }
        }
    }
    let corpus_files = std::fs::read_dir(&corpus).map(|r| r.count()).unwrap_or(0);
    let mut crashes = vec![];
    let mut notes: Vec<String> = vec![];
    if let Ok(rd) = std::fs::read_dir(&artifacts) {
        for e in rd.flatten() {
            let name = e.file_name().to_string_lossy().to_string();
            if !(name.starts_with("crash-") || name.starts_with("oom-") || name.starts_with("timeout-")) {
                continue;
            }
            let bytes = std::fs::read(e.path()).unwrap_or_default();
            // which property does this input violate? ask the in-process twin (strictly)
            std::env::set_var("RV_FUZZ_STRICT", "1");
            let msg = match rv::fuzzapi::run_target(target, &bytes) {
                Err(m) => m,
                Ok(()) => {
                    // does not reproduce through the oracle: a sanitizer report is a finding (memory safety is part of
                    // C06's statement), anything else is inconclusive
                    let asan = (0..procs).any(|j| std::fs::read_to_string(format!("{}/fuzz-{}-{}-{}.log", logdir, target, id, j)).map(|t| t.contains("AddressSanitizer")).unwrap_or(false));
                    if !asan {
                        notes.push(format!("libFuzzer wrote {} but the in-process replay through the oracle passes and no sanitizer report was logged", name));
                        continue;
                    }
                    format!("VIOLATION property={} sig=sanitizer-report :: AddressSanitizer report while running {} (see {}/fuzz-{}-{}-*.log)", id, name, logdir, target, id)
                }
            };
            if !msg.contains(&format!("property={}", id)) && msg.contains("VIOLATION property=") {
                continue; // belongs to the sibling property of a shared target
            }
            if name.starts_with("oom-") || name.starts_with("timeout-") {
                continue; // resource limits are inconclusive, never violations
            }
            let v = Violation { sub: format!("fuzz:{}", target), sig: format!("fuzz|{}", msg.split(" :: ").next().unwrap_or("").replace("VIOLATION ", "")), what: msg, case: json!({ "bytes": rv::refcodec::hex(&bytes) }) };
            let path = save_violation(id, &v);
            crashes.push((v, path));
        }
    }
    let report = json!({"target": target, "executions": execs, "processes": procs, "seconds": secs, "seed_corpus_files": seeds, "final_corpus_files": corpus_files, "crashes": crashes.len(), "unreproduced_artifacts": notes});
    if execs < 1_000 {
        return Err(format!("campaign executed only {} inputs (see {}/fuzz-{}-{}-0.log)", execs, logdir, target, id));
    }
    Ok((report, crashes))
}
