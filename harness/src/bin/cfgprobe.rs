fn main(){}
