//! cfgprobe <ENV|/path/to/file>: runs the product's own make_config + is_valid_config and prints the
//! effective settings as one JSON line. exit 0 = accepted, 1 = refused (error or invalid), 101 = panic.
use roughenough::config::{is_valid_config, make_config};
use serde_json::json;

fn main() {
    let arg = std::env::args().nth(1).expect("usage: cfgprobe <ENV|file>");
    let cfg = match make_config(&arg) {
        Ok(c) => c,
        Err(e) => {
            println!("{}", json!({"refused": format!("{:?}", e)}));
            std::process::exit(1);
        }
    };
    let valid = is_valid_config(cfg.as_ref());
    let out = json!({
        "valid": valid,
        "port": cfg.port(),
        "interface": cfg.interface(),
        "seed": rv::refcodec::hex(&cfg.seed()),
        "batch_size": cfg.batch_size(),
        "status_interval": cfg.status_interval().as_secs(),
        "health_check_port": cfg.health_check_port(),
        "client_stats": cfg.client_stats_enabled(),
        "fault_percentage": cfg.fault_percentage(),
        "num_workers": cfg.num_workers() as u64,
        "persistence_directory": cfg.persistence_directory().map(|p| p.display().to_string()),
        "kms_protection": format!("{}", cfg.kms_protection()),
    });
    println!("{}", out);
    std::process::exit(if valid { 0 } else { 1 });
}
