//! In-process driver for the real `roughenough::server::Server`.
//!
//! Single-threaded: the harness sends a step's datagrams (they queue in the server socket's receive
//! buffer), then a sentinel request, then calls `process_events` itself until the sentinel's reply
//! arrives. Loopback UDP keeps per-socket order, so the sentinel's reply proves that every earlier
//! datagram was consumed. Runs on the process's main thread (which is named "main", satisfying
//! `Server::new`'s requirement of a named thread).

use crate::engine::no_unwind;
use crate::refcrypto::{sha512, srv_value, RefKey};
use crate::refproto::*;
use log::{LevelFilter, Log, Metadata, Record};
use mio::net::UdpSocket as MioUdp;
use roughenough::config::MemoryConfig;
use roughenough::key::KmsProtection;
use roughenough::server::Server;
use roughenough::stats::StatsQueue;
use std::net::{SocketAddr, UdpSocket};
use std::os::unix::io::AsRawFd;
use std::sync::{Arc, Mutex};
use std::time::{Duration, Instant, SystemTime};

// ------------------------------------------------------------------ log capture

pub struct CaptureLogger {
    pub records: Mutex<Vec<String>>,
    pub keep: Mutex<bool>,
}

pub static LOGGER: CaptureLogger = CaptureLogger { records: Mutex::new(Vec::new()), keep: Mutex::new(true) };

impl Log for CaptureLogger {
    fn enabled(&self, _: &Metadata) -> bool {
        true
    }
    fn log(&self, record: &Record) {
        // formatting evaluates the arguments exactly as a real logger would
        let s = format!("{} [{}] {}", record.level(), record.target(), record.args());
        if *self.keep.lock().unwrap() {
            let mut r = self.records.lock().unwrap();
            if r.len() < 100_000 {
                r.push(s);
            }
        }
    }
    fn flush(&self) {}
}

pub fn install_logger(level: LevelFilter) {
    let _ = log::set_logger(&LOGGER);
    log::set_max_level(level);
}

pub fn take_logs() -> Vec<String> {
    std::mem::take(&mut *LOGGER.records.lock().unwrap())
}

pub fn level_from_index(i: u32) -> LevelFilter {
    match i % 6 {
        0 => LevelFilter::Off,
        1 => LevelFilter::Error,
        2 => LevelFilter::Warn,
        3 => LevelFilter::Info,
        4 => LevelFilter::Debug,
        _ => LevelFilter::Trace,
    }
}

// ------------------------------------------------------------------ sockets

/// pseudo socket index: the datagram is sent with UDP SOURCE PORT 0 through a raw socket. The server receives it like
/// any other datagram, but its reply cannot be sent (sendto to port 0 fails with EINVAL): the one way to make a
/// response send fail on loopback
pub const PORT0: usize = usize::MAX - 1;

/// a raw socket that sends UDP datagrams with source port 0
pub struct Port0Sender {
    fd: i32,
}

impl Port0Sender {
    /// None if raw sockets are not available
    pub fn new() -> Option<Port0Sender> {
        let fd = unsafe { libc::socket(libc::AF_INET, libc::SOCK_RAW, libc::IPPROTO_UDP) };
        if fd < 0 {
            None
        } else {
            Some(Port0Sender { fd })
        }
    }
    pub fn send(&self, dst: std::net::SocketAddr, payload: &[u8]) -> bool {
        let v4 = match dst {
            std::net::SocketAddr::V4(a) => a,
            _ => return false,
        };
        if payload.len() + 8 > 65_507 {
            return false;
        }
        let mut pkt = Vec::with_capacity(8 + payload.len());
        pkt.extend_from_slice(&0u16.to_be_bytes());
        pkt.extend_from_slice(&v4.port().to_be_bytes());
        pkt.extend_from_slice(&((8 + payload.len()) as u16).to_be_bytes());
        pkt.extend_from_slice(&0u16.to_be_bytes()); // no checksum (legal over IPv4)
        pkt.extend_from_slice(payload);
        let sa = libc::sockaddr_in { sin_family: libc::AF_INET as u16, sin_port: 0, sin_addr: libc::in_addr { s_addr: u32::from_ne_bytes(v4.ip().octets()) }, sin_zero: [0; 8] };
        let n = unsafe { libc::sendto(self.fd, pkt.as_ptr() as *const libc::c_void, pkt.len(), 0, &sa as *const libc::sockaddr_in as *const libc::sockaddr, std::mem::size_of::<libc::sockaddr_in>() as u32) };
        n == pkt.len() as isize
    }
}

impl Drop for Port0Sender {
    fn drop(&mut self) {
        unsafe {
            libc::close(self.fd);
        }
    }
}

/// false if raw sockets are not available (then the datagram never existed)
pub fn send_from_port0(dst: std::net::SocketAddr, payload: &[u8]) -> bool {
    match Port0Sender::new() {
        Some(s) => s.send(dst, payload),
        None => false,
    }
}

fn set_rcvbuf(fd: i32, bytes: i32) {
    unsafe {
        let v: libc::c_int = bytes;
        let p = &v as *const _ as *const libc::c_void;
        // SO_RCVBUFFORCE (needs CAP_NET_ADMIN; we are root), fall back to SO_RCVBUF
        if libc::setsockopt(fd, libc::SOL_SOCKET, libc::SO_RCVBUFFORCE, p, 4) != 0 {
            libc::setsockopt(fd, libc::SOL_SOCKET, libc::SO_RCVBUF, p, 4);
        }
    }
}

pub fn set_rcvbuf_pub(s: &UdpSocket, bytes: i32) {
    set_rcvbuf(s.as_raw_fd(), bytes);
}

pub fn get_rcvbuf(fd: i32) -> i32 {
    unsafe {
        let mut v: libc::c_int = 0;
        let mut l: libc::socklen_t = 4;
        libc::getsockopt(fd, libc::SOL_SOCKET, libc::SO_RCVBUF, &mut v as *mut _ as *mut libc::c_void, &mut l);
        v
    }
}

pub fn client_socket6() -> UdpSocket {
    let s = UdpSocket::bind("[::1]:0").expect("bind IPv6 client socket");
    s.set_nonblocking(true).unwrap();
    set_rcvbuf(s.as_raw_fd(), 8 << 20);
    s
}

/// is an IPv6 loopback available in this network namespace?
pub fn ipv6_available() -> bool {
    UdpSocket::bind("[::1]:0").is_ok()
}

pub fn client_socket() -> UdpSocket {
    let s = UdpSocket::bind("127.0.0.1:0").expect("bind client socket");
    s.set_nonblocking(true).unwrap();
    set_rcvbuf(s.as_raw_fd(), 8 << 20);
    s
}

// ------------------------------------------------------------------ lab

#[derive(Debug, Clone)]
pub struct LabCfg {
    pub seed: Vec<u8>,
    pub batch_size: u8,
    pub fault: u8,
    pub client_stats: bool,
    pub status_interval: Duration,
    /// TCP health-check port (None = disabled)
    pub health_port: Option<u16>,
    /// serve on [::1] with IPv6 client sockets instead of 127.0.0.1
    pub ipv6: bool,
    /// capacity of the statistics queue between worker and reporter (the server binary uses 2 x num_workers)
    pub queue_cap: usize,
}

impl Default for LabCfg {
    fn default() -> Self {
        LabCfg { seed: vec![7u8; 32], batch_size: 64, fault: 0, client_stats: false, status_interval: Duration::from_secs(600), health_port: None, ipv6: false, queue_cap: 64 }
    }
}

pub struct Lab {
    pub server: Box<Server>,
    pub events: mio::Events,
    pub addr: SocketAddr,
    pub pk: Vec<u8>,
    pub srv: Vec<u8>,
    pub socks: Vec<UdpSocket>,
    pub sentinel: UdpSocket,
    pub queue: Arc<StatsQueue>,
    pub cfg: LabCfg,
    sentinel_ctr: u64,
    pub born: Instant,
    /// how long a step waits for the sentinel's reply before declaring the worker wedged
    pub patience: Duration,
    /// pin the sentinel's protocol (default: alternate)
    pub force_sentinel: Option<Proto>,
}

#[derive(Debug)]
pub enum StepErr {
    /// process_events unwound
    Panic(String),
    /// the sentinel was not answered within the deadline
    Wedged(String),
}

pub struct StepResult {
    /// replies received per client socket, in arrival order
    pub replies: Vec<Vec<Vec<u8>>>,
    pub sentinel_request: Vec<u8>,
    pub sentinel_proto: Proto,
    /// datagrams received on the sentinel socket (exactly one expected)
    pub sentinel_replies: Vec<Vec<u8>>,
    /// harness clock before the first send and after the sentinel reply
    pub t0: SystemTime,
    pub t1: SystemTime,
    pub process_calls: u32,
    /// number of datagrams of this step the kernel accepted for sending (excluding the sentinel)
    pub sent_ok: usize,
    /// how many of them went out with source port 0 (see PORT0)
    pub port0_sent: usize,
}

impl Lab {
    pub fn new(cfg: LabCfg, nsocks: usize) -> Result<Lab, String> {
        let v6 = cfg.ipv6;
        let sock = MioUdp::bind(&(if v6 { "[::1]:0" } else { "127.0.0.1:0" }).parse().unwrap()).map_err(|e| format!("bind: {}", e))?;
        set_rcvbuf(sock.as_raw_fd(), 64 << 20);
        let addr = sock.local_addr().unwrap();
        let mc = MemoryConfig {
            port: addr.port(),
            interface: (if v6 { "::1" } else { "127.0.0.1" }).to_string(),
            seed: cfg.seed.clone(),
            batch_size: cfg.batch_size,
            status_interval: cfg.status_interval,
            kms_protection: KmsProtection::Plaintext,
            health_check_port: cfg.health_port,
            client_stats: cfg.client_stats,
            fault_percentage: cfg.fault,
            num_workers: 1,
        };
        let queue = Arc::new(StatsQueue::new(cfg.queue_cap.max(1)));
        let q2 = queue.clone();
        let server = no_unwind(move || Box::new(Server::new(&mc, sock, q2))).map_err(|p| format!("Server::new panicked: {}", p))?;
        let key = RefKey::from_seed(&cfg.seed);
        let pk = key.public();
        let srv = srv_value(&pk);
        let socks = (0..nsocks).map(|_| if v6 { client_socket6() } else { client_socket() }).collect();
        Ok(Lab { server, events: mio::Events::with_capacity(1024), addr, pk, srv, socks, sentinel: if v6 { client_socket6() } else { client_socket() }, queue, cfg, sentinel_ctr: 0, born: Instant::now(), patience: Duration::from_secs(5), force_sentinel: None })
    }

    /// a lab around a server built from an arbitrary (e.g. file- or environment-loaded) configuration
    pub fn with_config(config: &dyn roughenough::config::ServerConfig, nsocks: usize) -> Result<Lab, String> {
        let sock = MioUdp::bind(&"127.0.0.1:0".parse().unwrap()).map_err(|e| format!("bind: {}", e))?;
        set_rcvbuf(sock.as_raw_fd(), 64 << 20);
        let addr = sock.local_addr().unwrap();
        let queue = Arc::new(StatsQueue::new(64));
        let q2 = queue.clone();
        let server = no_unwind(move || Box::new(Server::new(config, sock, q2))).map_err(|p| format!("Server::new panicked: {}", p))?;
        let seed = config.seed();
        if seed.len() != 32 {
            return Err("seed is not 32 bytes".into());
        }
        let pk = RefKey::from_seed(&seed).public();
        let srv = srv_value(&pk);
        let socks = (0..nsocks).map(|_| client_socket()).collect();
        let cfg = LabCfg { seed, batch_size: config.batch_size(), fault: config.fault_percentage(), client_stats: config.client_stats_enabled(), status_interval: config.status_interval(), health_port: config.health_check_port(), ipv6: false, queue_cap: 64 };
        Ok(Lab { server, events: mio::Events::with_capacity(1024), addr, pk, srv, socks, sentinel: client_socket(), queue, cfg, sentinel_ctr: 0, born: Instant::now(), patience: Duration::from_secs(5), force_sentinel: None })
    }

    /// append client sockets bound to the given source ports (skipping ports that cannot be bound); returns how many
    pub fn add_port_socks(&mut self, ports: &[u16]) -> usize {
        let mut n = 0;
        for p in ports {
            if let Ok(s) = UdpSocket::bind(("127.0.0.1", *p)) {
                s.set_nonblocking(true).unwrap();
                set_rcvbuf(s.as_raw_fd(), 8 << 20);
                self.socks.push(s);
                n += 1;
            }
        }
        n
    }

    pub fn ensure_socks(&mut self, n: usize) {
        while self.socks.len() < n {
            self.socks.push(if self.cfg.ipv6 { client_socket6() } else { client_socket() });
        }
    }

    pub fn make_sentinel(&mut self) -> (Proto, Vec<u8>) {
        self.sentinel_ctr += 1;
        let proto = self.force_sentinel.unwrap_or(if self.sentinel_ctr % 2 == 0 { Proto::Ietf } else { Proto::Classic });
        let nonce = sha512(&[b"sentinel", &self.sentinel_ctr.to_le_bytes(), &self.addr.port().to_le_bytes()])[..proto.nonce_len()].to_vec();
        (proto, build_request(proto, &nonce, 1024, &[VER_DRAFT13], None))
    }

    fn drain(sock: &UdpSocket, into: &mut Vec<Vec<u8>>) -> usize {
        let mut buf = [0u8; 65_536];
        let mut n = 0;
        loop {
            match sock.recv_from(&mut buf) {
                Ok((l, _)) => {
                    into.push(buf[..l].to_vec());
                    n += 1;
                }
                Err(_) => break,
            }
        }
        n
    }

    /// One step: send `sends` (socket index, datagram), then the sentinel, pump the server until the
    /// sentinel is answered, collect everything. `expect_min` = number of replies the caller expects at
    /// least (used only to wait a little for loopback stragglers, never as an oracle).
    pub fn step(&mut self, sends: &[(usize, Vec<u8>)], expect_min: usize) -> Result<StepResult, StepErr> {
        let t0 = SystemTime::now();
        let mut sent_ok = 0;
        let mut port0_sent = 0;
        for (s, d) in sends {
            if *s == PORT0 {
                if !self.cfg.ipv6 && send_from_port0(self.addr, d) {
                    sent_ok += 1;
                    port0_sent += 1;
                }
                continue;
            }
            // a send error (e.g. EMSGSIZE) simply means the datagram never existed
            if self.socks[*s].send_to(d, self.addr).is_ok() {
                sent_ok += 1;
            }
        }
        let (sproto, sreq) = self.make_sentinel();
        self.sentinel.send_to(&sreq, self.addr).map_err(|e| StepErr::Wedged(format!("sentinel send failed: {}", e)))?;
        let deadline = Instant::now() + self.patience;
        let mut sentinel_replies = vec![];
        let mut calls = 0u32;
        loop {
            calls += 1;
            let server = &mut self.server;
            let events = &mut self.events;
            if let Err(p) = no_unwind(|| server.process_events(events)) {
                return Err(StepErr::Panic(p));
            }
            Self::drain(&self.sentinel, &mut sentinel_replies);
            if !sentinel_replies.is_empty() {
                break;
            }
            if Instant::now() > deadline {
                return Err(StepErr::Wedged(format!("sentinel not answered after {} process_events calls / {:?}", calls, self.patience)));
            }
        }
        let t1 = SystemTime::now();
        let mut replies: Vec<Vec<Vec<u8>>> = (0..self.socks.len()).map(|_| vec![]).collect();
        let mut total = 0;
        let settle = Instant::now() + Duration::from_millis(250);
        loop {
            for (i, s) in self.socks.iter().enumerate() {
                total += Self::drain(s, &mut replies[i]);
            }
            if total >= expect_min || Instant::now() > settle {
                break;
            }
            std::thread::sleep(Duration::from_micros(200));
        }
        // one more pass for stragglers (also catches unexpected extra datagrams)
        std::thread::yield_now();
        for (i, s) in self.socks.iter().enumerate() {
            Self::drain(s, &mut replies[i]);
        }
        Self::drain(&self.sentinel, &mut sentinel_replies);
        Ok(StepResult { replies, sentinel_request: sreq, sentinel_proto: sproto, sentinel_replies, t0, t1, process_calls: calls, sent_ok, port0_sent })
    }

    /// send datagrams WITHOUT a sentinel and let the server process them (`calls` process_events calls;
    /// the last ones block for the 100 ms poll timeout). Replies are left in the client sockets.
    pub fn feed(&mut self, sends: &[(usize, Vec<u8>)], calls: u32) -> Result<(), String> {
        for (s, d) in sends {
            if *s == PORT0 {
                if !self.cfg.ipv6 {
                    send_from_port0(self.addr, d);
                }
                continue;
            }
            let _ = self.socks[*s].send_to(d, self.addr);
        }
        self.idle_pump(calls)
    }

    /// pump the server with nothing queued (lets timers fire); returns Err on panic
    pub fn idle_pump(&mut self, calls: u32) -> Result<(), String> {
        for _ in 0..calls {
            let server = &mut self.server;
            let events = &mut self.events;
            no_unwind(|| server.process_events(events))?;
        }
        Ok(())
    }
}
