//! Runner for the real `roughenough-client` binary against a UDP mock responder on loopback.

use std::io::Read;
use std::net::{SocketAddr, UdpSocket};
use std::process::{Command, Stdio};
use std::time::{Duration, Instant};

pub const CLIENT_BIN: &str = "/verif/target-repo/debug/roughenough-client";
pub const SERVER_BIN: &str = "/verif/target-repo/debug/roughenough-server";

#[derive(Debug, Clone)]
pub struct ClientArgs {
    pub ietf: bool,
    /// pinned key as given on the command line (hex or base64), if any
    pub key: Option<String>,
    pub nreq: u8,
    /// 0 plain, 1 -v, 2 -j, 3 default time format (no -f)
    pub mode: u8,
    /// None: run with -z (UTC). Some(tz): run WITHOUT -z under this TZ (local-time output path)
    pub local_tz: Option<String>,
    /// further documented options, as a bit set: 1 = -d (text dump on stderr), 2 = -o <file> (requests also written to
    /// a file), 4 = -O <file> (responses also written to a file)
    pub opts: u8,
    /// false: the mock listens on 127.0.0.1 and the client asks 127.0.0.1. true: the mock listens on 0.0.0.0 and the
    /// client is told to ask 127.0.0.2 — the reply then comes FROM 127.0.0.1 (the address the kernel picks for a
    /// wildcard-bound socket), as with a multi-homed server
    pub via_alias: bool,
}

#[derive(Debug, Clone)]
pub struct ClientRun {
    pub exit: Option<i32>,
    pub stdout: String,
    pub stderr: String,
    /// requests in the order the mock received them, with their source address
    pub requests: Vec<(Vec<u8>, SocketAddr)>,
    pub wall: Duration,
}

impl ClientRun {
    /// stdout lines that carry a time (our format marker)
    pub fn time_lines(&self) -> Vec<&str> {
        self.stdout.lines().filter(|l| l.contains("TIME=")).collect()
    }
    /// (secs, nanos) parsed from `TIME=<secs> <nanos>` occurrences on stdout, in order
    pub fn times(&self) -> Vec<(i64, u32)> {
        let mut out = vec![];
        for l in self.stdout.lines() {
            if let Some(p) = l.find("TIME=") {
                let rest = &l[p + 5..];
                let mut it = rest.split(|c: char| !(c.is_ascii_digit() || c == '-')).filter(|s| !s.is_empty());
                if let (Some(a), Some(b)) = (it.next(), it.next()) {
                    if let (Ok(a), Ok(b)) = (a.parse::<i64>(), b.parse::<u32>()) {
                        out.push((a, b));
                    }
                }
            }
        }
        out
    }
}

#[derive(Debug)]
pub enum LabErr {
    /// harness-side problem (spawn failure, client never sent its requests, watchdog) => inconclusive
    Harness(String),
}

/// Run the client once. `respond` sees all requests of the run (in order) and returns, per request,
/// the datagrams to deliver to that request's source socket (usually exactly one).
pub fn run_client(args: &ClientArgs, mut respond: impl FnMut(&[Vec<u8>]) -> Vec<Vec<Vec<u8>>>) -> Result<ClientRun, LabErr> {
    let start = Instant::now();
    let mock = UdpSocket::bind(if args.via_alias { "0.0.0.0:0" } else { "127.0.0.1:0" }).map_err(|e| LabErr::Harness(format!("bind mock: {}", e)))?;
    mock.set_read_timeout(Some(Duration::from_millis(50))).unwrap();
    let port = mock.local_addr().unwrap().port();
    let mut cmd = Command::new(CLIENT_BIN);
    if args.local_tz.is_none() {
        cmd.arg("-z");
    }
    cmd.arg("-t").arg("3");
    if args.mode != 3 {
        cmd.arg("-f").arg("TIME=%s %f");
    }
    if args.ietf {
        cmd.arg("-p").arg("13");
    }
    if let Some(k) = &args.key {
        cmd.arg("-k").arg(k);
    }
    if args.nreq != 1 {
        cmd.arg("-n").arg(args.nreq.to_string());
    }
    match args.mode {
        1 => {
            cmd.arg("-v");
        }
        2 => {
            cmd.arg("-j");
        }
        _ => {}
    }
    let scratch = if args.opts & 6 != 0 { Some(crate::proclab::scratch_dir("cli")) } else { None };
    if args.opts & 1 != 0 {
        cmd.arg("-d");
    }
    if let Some(d) = &scratch {
        if args.opts & 2 != 0 {
            cmd.arg("-o").arg(d.join("requests.bin"));
        }
        if args.opts & 4 != 0 {
            cmd.arg("-O").arg(d.join("responses.bin"));
        }
    }
    cmd.arg(if args.via_alias { "127.0.0.2" } else { "127.0.0.1" }).arg(port.to_string());
    cmd.env("RUST_BACKTRACE", "0").env("TZ", args.local_tz.as_deref().unwrap_or("UTC")).stdin(Stdio::null()).stdout(Stdio::piped()).stderr(Stdio::piped());
    let mut child = cmd.spawn().map_err(|e| LabErr::Harness(format!("spawn {}: {}", CLIENT_BIN, e)))?;
    let mut so = child.stdout.take().unwrap();
    let mut se = child.stderr.take().unwrap();
    let t_out = std::thread::spawn(move || {
        let mut s = String::new();
        let _ = so.read_to_string(&mut s);
        s
    });
    let t_err = std::thread::spawn(move || {
        let mut s = String::new();
        let _ = se.read_to_string(&mut s);
        s
    });

    // collect the requests
    let mut requests: Vec<(Vec<u8>, SocketAddr)> = vec![];
    let mut buf = [0u8; 65_536];
    let deadline = Instant::now() + Duration::from_secs(10);
    let mut early_exit = None;
    while requests.len() < args.nreq as usize {
        match mock.recv_from(&mut buf) {
            Ok((n, src)) => {
                // belt and braces for hosts without private network namespaces: a datagram that is a *response*
                // (it carries SREP and CERT) cannot come from the client; it is a stray from a recycled port
                let d = &buf[..n];
                let payload = if n >= 12 && &d[0..8] == b"ROUGHTIM" { &d[12..] } else { d };
                let stray = crate::refcodec::Msg::decode_any(payload).map(|m| m.has(crate::refcodec::SREP) && m.has(crate::refcodec::CERT)).unwrap_or(false);
                if !stray {
                    requests.push((d.to_vec(), src));
                }
            }
            Err(_) => {
                if let Ok(Some(st)) = child.try_wait() {
                    early_exit = Some(st);
                    break;
                }
                if Instant::now() > deadline {
                    let _ = child.kill();
                    let _ = child.wait();
                    return Err(LabErr::Harness("client sent no request within 10 s".into()));
                }
            }
        }
    }
    if early_exit.is_none() {
        let reqs: Vec<Vec<u8>> = requests.iter().map(|r| r.0.clone()).collect();
        let answers = respond(&reqs);
        for (i, dgs) in answers.iter().enumerate() {
            if let Some((_, src)) = requests.get(i) {
                for d in dgs {
                    let _ = mock.send_to(d, src);
                }
            }
        }
    }
    // wait for exit (watchdog 15 s)
    let deadline = Instant::now() + Duration::from_secs(15);
    let status = loop {
        match child.try_wait() {
            Ok(Some(st)) => break Some(st),
            Ok(None) => {
                if Instant::now() > deadline {
                    let _ = child.kill();
                    let _ = child.wait();
                    break None;
                }
                std::thread::sleep(Duration::from_millis(1));
            }
            Err(_) => break None,
        }
    };
    let stdout = t_out.join().unwrap_or_default();
    let stderr = t_err.join().unwrap_or_default();
    if let Some(d) = &scratch {
        let _ = std::fs::remove_dir_all(d);
    }
    match status {
        None => Err(LabErr::Harness("client did not exit within 15 s (watchdog)".into())),
        Some(st) => Ok(ClientRun { exit: st.code().or(Some(-1)), stdout, stderr, requests, wall: start.elapsed() }),
    }
}

/// days since 1970-01-01 -> (year, month, day)   (Howard Hinnant's civil_from_days)
pub fn civil_from_days(z: i64) -> (i64, u32, u32) {
    let z = z + 719_468;
    let era = if z >= 0 { z } else { z - 146_096 } / 146_097;
    let doe = (z - era * 146_097) as u64;
    let yoe = (doe - doe / 1_460 + doe / 36_524 - doe / 146_096) / 365;
    let y = yoe as i64 + era * 400;
    let doy = doe - (365 * yoe + yoe / 4 - yoe / 100);
    let mp = (5 * doy + 2) / 153;
    let d = (doy - (153 * mp + 2) / 5 + 1) as u32;
    let m = if mp < 10 { mp + 3 } else { mp - 9 } as u32;
    (if m <= 2 { y + 1 } else { y }, m, d)
}

/// the client's default format "%b %d %Y %H:%M:%S %Z" in UTC
pub fn default_format(secs: i64) -> String {
    const MON: [&str; 12] = ["Jan", "Feb", "Mar", "Apr", "May", "Jun", "Jul", "Aug", "Sep", "Oct", "Nov", "Dec"];
    let days = secs.div_euclid(86_400);
    let rem = secs.rem_euclid(86_400);
    let (y, m, d) = civil_from_days(days);
    format!("{} {:02} {:04} {:02}:{:02}:{:02} UTC", MON[(m - 1) as usize], d, y, rem / 3600, (rem % 3600) / 60, rem % 60)
}
