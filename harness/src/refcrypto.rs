//! Independent crypto for the oracles: SHA-512 from `sha2`, Ed25519 from `ring`
//! (the product signs and verifies with ed25519-dalek and hashes with ring).

use ring::signature::{self, Ed25519KeyPair, KeyPair};
use sha2::{Digest, Sha512};

pub fn sha512(parts: &[&[u8]]) -> [u8; 64] {
    let mut h = Sha512::new();
    for p in parts {
        h.update(p);
    }
    let out = h.finalize();
    let mut r = [0u8; 64];
    r.copy_from_slice(&out);
    r
}

pub struct RefKey {
    kp: Ed25519KeyPair,
}

impl RefKey {
    pub fn from_seed(seed: &[u8]) -> RefKey {
        RefKey { kp: Ed25519KeyPair::from_seed_unchecked(seed).expect("32-byte seed") }
    }
    pub fn public(&self) -> Vec<u8> {
        self.kp.public_key().as_ref().to_vec()
    }
    pub fn sign(&self, msg: &[u8]) -> Vec<u8> {
        self.kp.sign(msg).as_ref().to_vec()
    }
}

pub fn verify(pk: &[u8], msg: &[u8], sig: &[u8]) -> bool {
    signature::UnparsedPublicKey::new(&signature::ED25519, pk).verify(msg, sig).is_ok()
}

/// SRV value = first 32 bytes of SHA-512(0xff || public key)   (draft-13 §5.1.2 / 6.1.x)
pub fn srv_value(pk: &[u8]) -> Vec<u8> {
    sha512(&[&[0xff], pk])[..32].to_vec()
}

/// Merkle parameters of a protocol version, from the protocol texts.
#[derive(Clone, Copy, Debug, PartialEq, Eq)]
pub struct TreeParams {
    /// node width in bytes (64 classic, 32 IETF: SHA-512 truncated at every node)
    pub width: usize,
}

pub const CLASSIC_TREE: TreeParams = TreeParams { width: 64 };
pub const IETF_TREE: TreeParams = TreeParams { width: 32 };

pub fn leaf_hash(p: TreeParams, leaf: &[u8]) -> Vec<u8> {
    sha512(&[&[0x00], leaf])[..p.width].to_vec()
}

pub fn node_hash(p: TreeParams, l: &[u8], r: &[u8]) -> Vec<u8> {
    sha512(&[&[0x01], l, r])[..p.width].to_vec()
}

/// Climb from a leaf to the root along `path` (sequence of `width`-byte siblings, bottom up).
/// Bit k of `index` (LSB first) says whether our node is the right child at level k.
pub fn climb(p: TreeParams, mut index: u64, leaf: &[u8], path: &[u8]) -> Option<Vec<u8>> {
    if path.len() % p.width != 0 {
        return None;
    }
    let mut h = leaf_hash(p, leaf);
    for sib in path.chunks(p.width) {
        h = if index & 1 == 0 { node_hash(p, &h, sib) } else { node_hash(p, sib, &h) };
        index >>= 1;
    }
    Some(h)
}

/// Reference Merkle tree builder (used by the reference responder): leaves hashed, odd levels padded
/// with an all-zero node, returns (root, paths per leaf).
pub fn build_tree(p: TreeParams, leaves: &[Vec<u8>]) -> (Vec<u8>, Vec<Vec<u8>>) {
    assert!(!leaves.is_empty());
    let mut levels: Vec<Vec<Vec<u8>>> = vec![leaves.iter().map(|l| leaf_hash(p, l)).collect()];
    while levels.last().unwrap().len() > 1 {
        let mut cur = levels.last().unwrap().clone();
        if cur.len() % 2 == 1 {
            cur.push(vec![0u8; p.width]);
            *levels.last_mut().unwrap() = cur.clone();
        }
        let next: Vec<Vec<u8>> = cur.chunks(2).map(|c| node_hash(p, &c[0], &c[1])).collect();
        levels.push(next);
    }
    let root = levels.last().unwrap()[0].clone();
    let mut paths = vec![];
    for i in 0..leaves.len() {
        let mut idx = i;
        let mut path = vec![];
        for lvl in &levels[..levels.len() - 1] {
            path.extend_from_slice(&lvl[idx ^ 1]);
            idx >>= 1;
        }
        paths.push(path);
    }
    (root, paths)
}

pub fn ceil_log2(n: usize) -> usize {
    let mut d = 0;
    while (1usize << d) < n {
        d += 1;
    }
    d
}
