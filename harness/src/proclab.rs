//! Runner for the real `roughenough-server` binary: configuration by file or environment, exclusive
//! ports, readiness, /proc inspection, signals, output capture.

use crate::clientlab::SERVER_BIN;
use crate::refcrypto::{sha512, RefKey};
use crate::refproto::*;
use std::io::Read;
use std::net::{TcpListener, UdpSocket};
use std::path::PathBuf;
use std::process::{Child, Command, ExitStatus, Stdio};
use std::sync::atomic::{AtomicU32, Ordering};
use std::sync::{Arc, Mutex};
use std::time::{Duration, Instant};

static COUNTER: AtomicU32 = AtomicU32::new(0);

pub fn scratch_dir(tag: &str) -> PathBuf {
    let n = COUNTER.fetch_add(1, Ordering::SeqCst);
    let p = PathBuf::from(format!("/verif/out/tmp/{}-{}-{}", tag, std::process::id(), n));
    let _ = std::fs::create_dir_all(&p);
    p
}

/// A port that is free for UDP and TCP right now and reserved among harness processes by a lock file.
pub struct PortLease {
    pub port: u16,
    lock: PathBuf,
}

impl Drop for PortLease {
    fn drop(&mut self) {
        let _ = std::fs::remove_file(&self.lock);
    }
}

pub fn lease_port() -> Result<PortLease, String> {
    let dir = PathBuf::from("/verif/out/ports");
    let _ = std::fs::create_dir_all(&dir);
    let base = 10_000u32;
    let span = 20_000u32;
    let mut x = (std::process::id().wrapping_mul(2_654_435_761)) ^ COUNTER.fetch_add(1, Ordering::SeqCst).wrapping_mul(40_503);
    for _ in 0..2000 {
        x = x.wrapping_mul(1_664_525).wrapping_add(1_013_904_223);
        let port = (base + (x >> 8) % span) as u16;
        let lock = dir.join(format!("{}", port));
        // stale locks (older than 10 minutes) are reclaimed
        if let Ok(md) = std::fs::metadata(&lock) {
            if md.modified().ok().and_then(|m| m.elapsed().ok()).map(|e| e > Duration::from_secs(600)).unwrap_or(false) {
                let _ = std::fs::remove_file(&lock);
            }
        }
        if std::fs::OpenOptions::new().write(true).create_new(true).open(&lock).is_err() {
            continue;
        }
        // exclusive binds (no SO_REUSE*): fail if anything, including a reuseport server, holds the port
        let udp_ok = UdpSocket::bind(("127.0.0.1", port)).is_ok();
        let tcp_ok = TcpListener::bind(("127.0.0.1", port)).is_ok();
        if udp_ok && tcp_ok {
            return Ok(PortLease { port, lock });
        }
        let _ = std::fs::remove_file(&lock);
    }
    Err("no free port found".into())
}

/// One of `slots` host-wide tokens (flock on /verif/out/slots/<name>-<k>); held until the file is dropped. Used to keep
/// CPU-hungry plans (open-loop floods) from running in more worker processes at once than the machine has cores for —
/// a flood whose sender threads are time-sliced has gaps, and the behaviour under a gapless flood is the point.
/// After `patience` without a free slot the plan runs anyway (None).
pub fn host_slot(name: &str, slots: usize, patience: Duration) -> Option<std::fs::File> {
    use std::os::unix::io::AsRawFd;
    let dir = PathBuf::from("/verif/out/slots");
    let _ = std::fs::create_dir_all(&dir);
    let end = Instant::now() + patience;
    loop {
        for k in 0..slots {
            if let Ok(f) = std::fs::OpenOptions::new().create(true).write(true).open(dir.join(format!("{}-{}", name, k))) {
                if unsafe { libc::flock(f.as_raw_fd(), libc::LOCK_EX | libc::LOCK_NB) } == 0 {
                    return Some(f);
                }
            }
        }
        if Instant::now() > end {
            return None;
        }
        std::thread::sleep(Duration::from_millis(25));
    }
}

#[derive(Debug, Clone, Default)]
pub struct SrvCfg {
    pub seed_hex: String,
    pub workers: Option<u64>,
    pub health: bool,
    pub batch_size: Option<u32>,
    pub fault: Option<u32>,
    pub status_interval: Option<u32>,
    pub client_stats: bool,
    pub via_env: bool,
    /// health_check_port is written with the same number as `port` (TCP and UDP port spaces are separate)
    pub health_same_port: bool,
    /// signals the server inherits as IGNORED from whoever starts it (nohup: SIGHUP; a background job of a
    /// non-interactive shell: SIGINT and SIGQUIT)
    pub inherit_ignored: Vec<i32>,
    /// raw extra settings (key, value) appended as written
    pub extra: Vec<(String, String)>,
    /// extra environment variables for the server process (not settings), e.g. TZ
    pub env_extra: Vec<(String, String)>,
}

pub struct ServerProc {
    pub child: Child,
    pub port: u16,
    pub hc_port: Option<u16>,
    pub dir: PathBuf,
    pub pk: Vec<u8>,
    out: Arc<Mutex<Vec<u8>>>,
    readers: Vec<std::thread::JoinHandle<()>>,
    _leases: Vec<PortLease>,
    pub started: Instant,
    /// probe sockets stay open as long as the server lives: late replies to start-up probes must not reach a client
    /// socket that happens to get the same (recycled) ephemeral port
    keep: Vec<UdpSocket>,
}

fn spawn_reader<R: Read + Send + 'static>(mut r: R, sink: Arc<Mutex<Vec<u8>>>) -> std::thread::JoinHandle<()> {
    std::thread::spawn(move || {
        let mut buf = [0u8; 8192];
        loop {
            match r.read(&mut buf) {
                Ok(0) | Err(_) => break,
                Ok(n) => {
                    let mut s = sink.lock().unwrap();
                    if s.len() < 8 << 20 {
                        s.extend_from_slice(&buf[..n]);
                    }
                }
            }
        }
    })
}

impl ServerProc {
    /// settings as (key, value) pairs in file order
    pub fn settings(cfg: &SrvCfg, port: u16, hc: Option<u16>, dir: &PathBuf) -> Vec<(String, String)> {
        let mut s: Vec<(String, String)> = vec![("interface".into(), "127.0.0.1".into()), ("port".into(), port.to_string()), ("seed".into(), cfg.seed_hex.clone())];
        if let Some(w) = cfg.workers {
            s.push(("num_workers".into(), w.to_string()));
        }
        if let Some(h) = hc {
            s.push(("health_check_port".into(), h.to_string()));
        }
        if let Some(b) = cfg.batch_size {
            s.push(("batch_size".into(), b.to_string()));
        }
        if let Some(f) = cfg.fault {
            s.push(("fault_percentage".into(), f.to_string()));
        }
        if let Some(i) = cfg.status_interval {
            s.push(("status_interval".into(), i.to_string()));
        }
        if cfg.client_stats {
            let pd = dir.join("stats");
            let _ = std::fs::create_dir_all(&pd);
            s.push(("client_stats".into(), "on".into()));
            s.push(("persistence_directory".into(), pd.display().to_string()));
        }
        s.extend(cfg.extra.iter().cloned());
        s
    }

    pub fn start(cfg: &SrvCfg) -> Result<ServerProc, String> {
        let dir = scratch_dir("srv");
        let lease = lease_port()?;
        let port = lease.port;
        let mut leases = vec![lease];
        let hc = if cfg.health && cfg.health_same_port {
            Some(port)
        } else if cfg.health {
            let l = lease_port()?;
            let p = l.port;
            leases.push(l);
            Some(p)
        } else {
            None
        };
        let settings = Self::settings(cfg, port, hc, &dir);
        let mut cmd = Command::new(SERVER_BIN);
        cmd.env_clear().env("RUST_BACKTRACE", "0").env("PATH", "/usr/bin:/bin");
        for (k, v) in &cfg.env_extra {
            cmd.env(k, v);
        }
        if cfg.via_env {
            for (k, v) in &settings {
                cmd.env(format!("ROUGHENOUGH_{}", k.to_uppercase()), v);
            }
            cmd.arg("ENV");
        } else {
            let path = dir.join("server.cfg");
            let body: String = settings.iter().map(|(k, v)| format!("{}: {}\n", k, v)).collect();
            std::fs::write(&path, body).map_err(|e| e.to_string())?;
            cmd.arg(&path);
        }
        cmd.current_dir(&dir).stdin(Stdio::null()).stdout(Stdio::piped()).stderr(Stdio::piped());
        if !cfg.inherit_ignored.is_empty() {
            use std::os::unix::process::CommandExt;
            let sigs = cfg.inherit_ignored.clone();
            unsafe {
                cmd.pre_exec(move || {
                    for s in &sigs {
                        libc::signal(*s, libc::SIG_IGN);
                    }
                    Ok(())
                });
            }
        }
        let mut child = cmd.spawn().map_err(|e| format!("spawn {}: {}", SERVER_BIN, e))?;
        let out = Arc::new(Mutex::new(Vec::new()));
        let readers = vec![spawn_reader(child.stdout.take().unwrap(), out.clone()), spawn_reader(child.stderr.take().unwrap(), out.clone())];
        let pk = if cfg.seed_hex.len() == 64 && cfg.seed_hex.bytes().all(|c| c.is_ascii_hexdigit()) { RefKey::from_seed(&crate::refcodec::unhex(&cfg.seed_hex)).public() } else { vec![] };
        Ok(ServerProc { child, port, hc_port: hc, dir, pk, out, readers, _leases: leases, started: Instant::now(), keep: vec![] })
    }

    pub fn addr(&self) -> std::net::SocketAddr {
        format!("127.0.0.1:{}", self.port).parse().unwrap()
    }

    pub fn output(&self) -> String {
        String::from_utf8_lossy(&self.out.lock().unwrap()).to_string()
    }

    /// complete output; call after the process has exited (waits for the pipe readers to drain)
    pub fn final_output(&mut self) -> String {
        if matches!(self.child.try_wait(), Ok(Some(_))) {
            for h in self.readers.drain(..) {
                let _ = h.join();
            }
        }
        self.output()
    }

    pub fn alive(&mut self) -> bool {
        matches!(self.child.try_wait(), Ok(None))
    }

    /// wait until a valid reply to a classic request arrives (deadline), or the process exits
    pub fn wait_ready(&mut self, deadline: Duration) -> Result<(), String> {
        let sock = UdpSocket::bind("127.0.0.1:0").map_err(|e| e.to_string())?;
        sock.set_read_timeout(Some(Duration::from_millis(40))).unwrap();
        let end = Instant::now() + deadline;
        let mut k = 0u32;
        let mut buf = [0u8; 4096];
        loop {
            if !self.alive() {
                return Err(format!("server exited during start-up: {}", self.output()));
            }
            k += 1;
            let nonce = sha512(&[b"ready", &k.to_le_bytes(), &self.port.to_le_bytes()])[..64].to_vec();
            let req = build_request(Proto::Classic, &nonce, 1024, &[], None);
            let _ = sock.send_to(&req, self.addr());
            if let Ok((n, _)) = sock.recv_from(&mut buf) {
                // with fault injection on, any datagram proves a worker is serving
                if n > 0 {
                    self.keep.push(sock);
                    return Ok(());
                }
            }
            if Instant::now() > end {
                return Err(format!("no reply within {:?}; output so far: {}", deadline, self.output()));
            }
        }
    }

    /// like wait_ready, but polls every millisecond from ONE socket (so only one worker of the SO_REUSEPORT group ever
    /// has probe datagrams queued; the others stay untouched) and returns at the first response
    pub fn wait_first_response(&mut self, deadline: Duration) -> Result<(), String> {
        let end = Instant::now() + deadline;
        let mut k = 0u32;
        let mut buf = [0u8; 4096];
        let sock = UdpSocket::bind("127.0.0.1:0").map_err(|e| e.to_string())?;
        sock.set_nonblocking(true).unwrap();
        loop {
            if !self.alive() {
                return Err(format!("server exited during start-up: {}", self.output()));
            }
            k += 1;
            // (a probe every 8 ms; the queue of a worker that is not up yet stays short)
            if k % 8 == 1 {
                let nonce = sha512(&[b"first", &k.to_le_bytes(), &self.port.to_le_bytes()])[..64].to_vec();
                let _ = sock.send_to(&build_request(Proto::Classic, &nonce, 1024, &[], None), self.addr());
            }
            std::thread::sleep(Duration::from_millis(1));
            if matches!(sock.recv_from(&mut buf), Ok((n, _)) if n > 0) {
                self.keep.push(sock);
                return Ok(());
            }
            if Instant::now() > end {
                return Err(format!("no reply within {:?}; output so far: {}", deadline, self.output()));
            }
        }
    }

    /// names of the live threads (from /proc/<pid>/task/*/comm)
    pub fn thread_names(&self) -> Vec<String> {
        let mut v = vec![];
        if let Ok(rd) = std::fs::read_dir(format!("/proc/{}/task", self.child.id())) {
            for e in rd.flatten() {
                if let Ok(s) = std::fs::read_to_string(e.path().join("comm")) {
                    v.push(s.trim().to_string());
                }
            }
        }
        v.sort();
        v
    }

    pub fn signal(&self, sig: i32) {
        unsafe {
            libc::kill(self.child.id() as i32, sig);
        }
    }

    pub fn wait_exit(&mut self, timeout: Duration) -> Option<ExitStatus> {
        let end = Instant::now() + timeout;
        loop {
            match self.child.try_wait() {
                Ok(Some(st)) => return Some(st),
                Ok(None) => {
                    if Instant::now() > end {
                        return None;
                    }
                    std::thread::sleep(Duration::from_millis(2));
                }
                Err(_) => return None,
            }
        }
    }

    /// total `drops` over the UDP sockets bound to our port (from /proc/net/udp)
    /// number of open file descriptors of the server process
    pub fn fd_count(&self) -> Option<usize> {
        std::fs::read_dir(format!("/proc/{}/fd", self.child.id())).ok().map(|d| d.count())
    }

    /// set the soft RLIMIT_NOFILE of the running server (what `ulimit -n` would have given it); false if not possible
    pub fn set_nofile_soft(&self, soft: u64) -> bool {
        unsafe {
            let mut old: libc::rlimit = std::mem::zeroed();
            if libc::prlimit(self.child.id() as i32, libc::RLIMIT_NOFILE, std::ptr::null(), &mut old) != 0 {
                return false;
            }
            let new = libc::rlimit { rlim_cur: soft.min(old.rlim_max), rlim_max: old.rlim_max };
            libc::prlimit(self.child.id() as i32, libc::RLIMIT_NOFILE, &new, std::ptr::null_mut()) == 0
        }
    }

    pub fn udp_drops(&self) -> u64 {
        udp_drops_for_port(self.port)
    }
}

/// bytes waiting in the receive queues of the UDP sockets bound to `port`
pub fn udp_rx_queue_for_port(port: u16) -> u64 {
    let mut total = 0;
    if let Ok(s) = std::fs::read_to_string("/proc/net/udp") {
        for l in s.lines().skip(1) {
            let f: Vec<&str> = l.split_whitespace().collect();
            if f.len() >= 13 {
                if let Some(p) = f[1].split(':').nth(1) {
                    if u16::from_str_radix(p, 16).ok() == Some(port) {
                        if let Some(rx) = f[4].split(':').nth(1) {
                            total += u64::from_str_radix(rx, 16).unwrap_or(0);
                        }
                    }
                }
            }
        }
    }
    total
}

pub fn udp_drops_for_port(port: u16) -> u64 {
    let mut total = 0;
    if let Ok(s) = std::fs::read_to_string("/proc/net/udp") {
        for l in s.lines().skip(1) {
            let f: Vec<&str> = l.split_whitespace().collect();
            if f.len() >= 13 {
                if let Some(p) = f[1].split(':').nth(1) {
                    if u16::from_str_radix(p, 16).ok() == Some(port) {
                        total += f[12].parse::<u64>().unwrap_or(0);
                    }
                }
            }
        }
    }
    total
}

impl Drop for ServerProc {
    fn drop(&mut self) {
        if matches!(self.child.try_wait(), Ok(None)) {
            let _ = self.child.kill();
        }
        let _ = self.child.wait();
        let _ = std::fs::remove_dir_all(&self.dir);
    }
}

/// a fresh standard request with a nonce derived from (tag, k)
pub fn fresh_request(proto: Proto, tag: &[u8], k: u64) -> Vec<u8> {
    let nonce = sha512(&[b"proc", tag, &k.to_le_bytes()])[..proto.nonce_len()].to_vec();
    build_request(proto, &nonce, 1024, &[VER_DRAFT13], None)
}
