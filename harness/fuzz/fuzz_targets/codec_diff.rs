#![no_main]
use libfuzzer_sys::fuzz_target;
fuzz_target!(|data: &[u8]| { rv::fuzzapi::codec_diff(data); });
