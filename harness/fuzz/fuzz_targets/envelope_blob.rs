#![no_main]
use libfuzzer_sys::fuzz_target;
fuzz_target!(|data: &[u8]| { rv::fuzzapi::envelope_blob(data); });
