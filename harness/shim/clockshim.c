/* LD_PRELOAD shim for the C11 "clock-step" check: the server process sees CLOCK_REALTIME shifted by the number of
 * seconds written (as decimal text) in the file named by CLOCKSHIM_FILE. The file is re-read on every call, so the
 * harness can step the server's clock while it runs. Nothing else is touched (monotonic clocks stay as they are). */
#define _GNU_SOURCE
#include <dlfcn.h>
#include <fcntl.h>
#include <stdlib.h>
#include <sys/time.h>
#include <time.h>
#include <unistd.h>

static long long read_offset(void) {
    const char *p = getenv("CLOCKSHIM_FILE");
    if (!p) return 0;
    int fd = open(p, O_RDONLY | O_CLOEXEC);
    if (fd < 0) return 0;
    char buf[32];
    ssize_t n = read(fd, buf, sizeof buf - 1);
    close(fd);
    if (n <= 0) return 0;
    buf[n] = 0;
    return atoll(buf);
}

int clock_gettime(clockid_t clk, struct timespec *ts) {
    static int (*real)(clockid_t, struct timespec *);
    if (!real) real = (int (*)(clockid_t, struct timespec *))dlsym(RTLD_NEXT, "clock_gettime");
    int r = real(clk, ts);
    if (r == 0 && clk == CLOCK_REALTIME) ts->tv_sec += read_offset();
    return r;
}

int gettimeofday(struct timeval *tv, void *tz) {
    static int (*real)(struct timeval *, void *);
    if (!real) real = (int (*)(struct timeval *, void *))dlsym(RTLD_NEXT, "gettimeofday");
    int r = real(tv, tz);
    if (r == 0 && tv) tv->tv_sec += read_offset();
    return r;
}

time_t time(time_t *t) {
    struct timespec ts;
    clock_gettime(CLOCK_REALTIME, &ts);
    if (t) *t = ts.tv_sec;
    return ts.tv_sec;
}
