#!/bin/bash
# offline build of everything the checks need
set -e
cd /verif
mkdir -p out/logs
export CARGO_NET_OFFLINE=true
./run.sh build
echo "setup ok"
