#!/usr/bin/env python3
"""tools/sens.py [name ...] — sensitivity run: apply each seeded patch to /repo, run the quick checks of the
property it breaks (and 'also_expected'), revert, and record in seeded/RESULTS.json which checks went red."""
import json,os,subprocess,sys,time
os.chdir('/verif')
names=sys.argv[1:] or sorted(os.listdir('seeded'))
res=json.load(open('seeded/RESULTS.json')) if os.path.exists('seeded/RESULTS.json') else {}
for n in names:
    d=f'seeded/{n}'
    if not os.path.exists(d+'/meta.json'): continue
    meta=json.load(open(d+'/meta.json'))
    if subprocess.run(['git','-C','/repo','diff','--quiet']).returncode!=0:
        print('/repo dirty, abort'); sys.exit(3)
    if subprocess.run(['git','-C','/repo','apply',os.path.abspath(d+'/patch.diff')]).returncode!=0:
        print(n,'patch does not apply'); res[n]={'error':'patch does not apply'}; continue
    try:
        r={}
        for prop in [meta['property']]+meta.get('also_expected',[])+meta.get('extra_checks',[]):
            t=time.time()
            p=subprocess.run(['./run.sh',prop,os.environ.get('TIER','quick')],capture_output=True,text=True)
            sigs=[l.split('sig=')[1].split(' ::')[0] for l in p.stdout.splitlines() if 'violated:' in l]
            # keep the first shrunk case as a committed regression input (it passes on the unchanged tree)
            reps=[l.split('replay=')[1].strip() for l in p.stdout.splitlines() if l.startswith('VIOLATION ')]
            if reps and os.environ.get('KEEP_REPLAYS','1')=='1' and os.path.exists(reps[0]) and os.path.getsize(reps[0])<200_000:
                os.makedirs(f'replays/{prop}',exist_ok=True)
                import shutil
                if os.path.abspath(reps[0]) != os.path.abspath(f'replays/{prop}/{n}.json'): shutil.copy(reps[0], f'replays/{prop}/{n}.json')
            r[prop]={'rc':p.returncode,'sigs':sigs[:4],'wall_s':round(time.time()-t,1)}
            print(n,prop,'rc',p.returncode,sigs[:2])
        res[n]={'property':meta['property'],'results':r,'caught':r[meta['property']]['rc']==1}
    finally:
        subprocess.run(['git','-C','/repo','checkout','--','.'])
    json.dump(res,open('seeded/RESULTS.json','w'),indent=1)
