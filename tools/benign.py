#!/usr/bin/env python3
"""tools/benign.py — false-alarm run: apply each behaviour-preserving change under benign/ to /repo, run the quick checks
of the properties its area touches, revert; any rc != 0 is a false alarm candidate. Results -> benign/RESULTS.json"""
import json,os,subprocess,sys,glob,time
os.chdir('/verif')
AREA={'B01':['C05','C06','C02','C07','C08','C01','C03'],'B02':['C04','C10','C11','C13','C02','C03','C09','C01'],
      'B03':['C02','C07','C08','C09','C12','C18','C17','C11','C15','C19','C20'],'B04':['C01','C03'],
      'B05':['C14','C15','C16','C19','C20','C18','C10'],'B06':['C17','C08','C15','C18','C19','C02'],
      'B07':['C02','C07','C08','C09','C10','C11','C12','C17','C18','C15','C19','C20','C03','C04'],
      'B08':['C14','C15','C16','C19','C20','C18','C10','C17'],'B09':['C01','C03','C05','C06','C02']}
res=json.load(open('benign/RESULTS.json')) if os.path.exists('benign/RESULTS.json') else {}
only=sys.argv[1:]
for d in sorted(glob.glob('benign/B*/benign*.diff')):
    name=d.split('/')[1]+'-'+os.path.basename(d)[:-5]
    if only and name not in only: continue
    if subprocess.run(['git','-C','/repo','diff','--quiet']).returncode!=0:
        print('/repo dirty'); sys.exit(3)
    if subprocess.run(['git','-C','/repo','apply',os.path.abspath(d)],capture_output=True).returncode!=0:
        print(name,'does not apply'); res[name]={'error':'does not apply'}; continue
    try:
        r={}
        for prop in AREA[name[:3]]:
            p=subprocess.run(['./run.sh',prop,'quick'],capture_output=True,text=True)
            sigs=[l.strip()[:300] for l in p.stdout.splitlines() if 'violated:' in l or 'inconclusive:' in l]
            r[prop]={'rc':p.returncode,'lines':sigs[:3]}
            if p.returncode!=0: print(name,prop,'rc',p.returncode,sigs[:2])
        res[name]=r
        print(name,'done',{k:v['rc'] for k,v in r.items()})
    finally:
        subprocess.run(['git','-C','/repo','checkout','--','.'])
    json.dump(res,open('benign/RESULTS.json','w'),indent=1)
