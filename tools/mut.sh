#!/bin/bash
# tools/mut.sh <patch.diff> <id> [<id>...]  — apply a seeded change to /repo, run quick checks, always revert
P="$1"; shift
cd /repo && git diff --quiet || { echo "/repo dirty"; exit 3; }
git -C /repo apply "$P" || { echo "patch does not apply"; exit 3; }
trap 'git -C /repo checkout -- . ' EXIT
cd /verif
for id in "$@"; do
  out=$(./run.sh "$id" ${TIER:-quick} 2>&1); rc=$?
  echo "== $id rc=$rc"; echo "$out" | grep -E "violated:|VIOLATION|inconclusive|KNOWN" | head -${LINES_MAX:-4}
done
