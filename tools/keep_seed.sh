#!/bin/bash
# tools/keep_seed.sh <Cxx> <n> <demo-file> '<what>' '<needs>' '<demo cmd>'
ID=$1; N=$2; DEMOF=$3; WHAT="$4"; NEEDS="$5"; CMD="$6"
D=/verif/seeded/$ID-$N; mkdir -p $D
cp /tmp/wt/$ID-out/mutant$N.diff $D/patch.diff
cp /tmp/wt/$ID-out/$DEMOF $D/
python3 - "$ID" "$N" "$DEMOF" "$WHAT" "$NEEDS" "$CMD" <<'PY'
import json,sys
id,n,demof,what,needs,cmd=sys.argv[1:7]
json.dump({"property":id,"also_expected":[],"origin":"written by an independent sub-agent given only the property text and a scratch worktree","what":what,"needs_to_manifest":needs,"demonstration":demof,"ran":f"tools/vet.sh {id} {n} '{cmd}'  -> existing 47 tests pass with the change, demo fails with it and passes without it (confirmed in a scratch worktree); then tools/sens.py {id}-{n}"},open(f"/verif/seeded/{id}-{n}/meta.json","w"),indent=1)
PY
