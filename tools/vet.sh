#!/bin/bash
# tools/vet.sh <Cxx> <n> '<demo command, run in the worktree; non-zero exit = demo fails>'
# confirms in the scratch worktree /tmp/wt/<Cxx>: mutant applies, 47 tests pass, demo fails with / passes without.
ID=$1; N=$2; DEMO="$3"; WT=/tmp/wt/$ID; OUT=/tmp/wt/$ID-out
cd $WT || exit 3
git checkout -q -- . ; git clean -fdq -e target
git apply $OUT/mutant$N.diff || { echo "VET $ID/$N: patch does not apply"; exit 1; }
T=$(CARGO_NET_OFFLINE=true timeout 900 cargo test --offline 2>&1 | grep -E "^test result: ok. (4[7-9]|5[0-9]) passed; 0 failed" | wc -l)
timeout 900 bash -c "$DEMO" >/tmp/wt/$ID-out/vet$N.with.log 2>&1; RC_WITH=$?
git checkout -q -- . ; git clean -fdq -e target
timeout 900 bash -c "$DEMO" >/tmp/wt/$ID-out/vet$N.without.log 2>&1; RC_WITHOUT=$?
git checkout -q -- . ; git clean -fdq -e target
echo "VET $ID/$N: tests47=$T demo_with_mutant_rc=$RC_WITH demo_without_rc=$RC_WITHOUT"
[ "$T" = 1 ] && [ $RC_WITH -ne 0 ] && [ $RC_WITHOUT -eq 0 ]
