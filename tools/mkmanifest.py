#!/usr/bin/env python3
"""Regenerates /verif/MANIFEST.json from the table below (kept in one place so it stays valid)."""
import json, subprocess, sys

CHECKS = {
 # id: (level, technique, text, note, design_ref)
 "C05": ("exploration", "property-based testing (proptest) + bounded-exhaustive enumeration, differential against an independent reference codec; libFuzzer twin in thorough",
         "Differential and round-trip search: every generated API message, every word string up to the stated length over a 16-word alphabet (exhaustive) and structured mutants of valid encodings are decoded by the product and by an independent reference decoder; verdicts, contents and canonical re-encoding must agree. No counterexample within the explored space; exhaustive only inside the stated small scope.",
         "Trusted base: refcodec.rs (reference decoder written from the protocol texts), proptest, rustc. Says nothing about inputs outside the generators' reach (e.g. > 64 KiB).", "DESIGN.md §3 C05"),
 "C06": ("exploration", "property-based testing (proptest) + bounded-exhaustive enumeration with catch_unwind oracle; libFuzzer+ASan twin in thorough",
         "Searches for byte strings on which decoding or Display unwinds, or whose decoded values differ from the input bytes after the header; same generators as C05 plus random strings to 64 KiB, count/offset arithmetic mutants and undecodable nested values.",
         "Trusted base: catch_unwind sees every panic; safe Rust turns out-of-bounds reads into panics. Stack exhaustion on pathologically deep nesting is probed separately (see DESIGN.md).", "DESIGN.md §3 C06"),
 "C04": ("exploration", "bounded-exhaustive enumeration + property-based testing (proptest) with an independent sha2 Merkle climb and fresh-tree differential",
         "Completeness is enumerated exhaustively for every leaf count 1..=255, every position, both profiles; binding negatives and reuse-vs-fresh differentials are enumerated over size grids (all 65,025 ordered pairs and all (n,i) in thorough) and searched with generated leaf sets and histories.",
         "Trusted base: refcrypto.rs climb (sha2), SHA-512 collision resistance. The node width is inferred from the issued path, so C04 does not judge which width is used (C02 does).", "DESIGN.md §3 C04"),
 "C13": ("exploration", "property-based testing (proptest), differential against ed25519-dalek one-shot and ring; per-triple exhaustive single-bit corruption",
         "Generated histories of chunked messages on one signer object are compared with one-shot deterministic Ed25519 from two independent libraries; the verifier is compared with direct verification on honest triples and on every single-bit corruption of signature and key.",
         "Trusted base: ed25519-dalek one-shot API and ring agree with RFC 8032 (cross-checked per case). Small-order/non-canonical keys are only reached through bit flips of honest keys.", "DESIGN.md §3 C13"),
 "C14": ("fault_enumeration", "property-based testing (proptest) over blob shapes + exhaustive enumeration of single-bit/byte/truncation/extension tampering and provider faults per blob",
         "For each generated blob shape every tamper of the stated kinds is enumerated and must yield Err; round trip and leak windows are checked on the untouched blob; provider faults on either call are injected.",
         "Trusted base: the harness table-KMS authenticates the whole wrapped key, like a real KMS; AES-GCM forgery infeasible. Multi-byte coordinated edits are only sampled (extension/truncation).", "DESIGN.md §3 C14"),
 "C02": ("exploration", "property-based testing (proptest) of batch histories against the real in-process Server, judged by an independent spec-derived verifier; statistical check of the fault share",
         "Generated batch compositions, positions, consecutive batches and batch_size values are served by the real Server object; every emitted datagram is judged by a verifier that shares no code with the product (own codec, sha2, ring). Fault mode checks verdict totality, no half-valid replies and the failing share (6 sigma).",
         "Trusted base: refproto.rs/refcrypto.rs, loopback UDP ordering. Online keys and the server's own PRNG are not pinned. The real multi-worker binary is covered by C18/C15, not here.", "DESIGN.md §3 C02"),
 "C07": ("exploration", "property-based testing (proptest) + grid enumeration of nonce lengths against the in-process Server with a sentinel-request protocol; reference request classifier",
         "Searches datagram space (lengths 0..=65507, truncated/extended/field-mutated requests, every aligned nonce length, full batches) for a datagram that is answered although it is not a well-formed in-range request, or a reply longer than its request.",
         "Only the only-if direction and the size relation are asserted; the classifier is deliberately generous. Absence of a reply is asserted only after the sentinel proved consumption.", "DESIGN.md §3 C07"),
 "C08": ("exploration", "property-based testing (proptest) of datagram sequences per log level (one worker process per level) with catch_unwind and a sentinel liveness probe",
         "Generated sequences of valid, near-valid and junk datagrams are fed to the Server at each log level Off..Trace (arguments of log macros really evaluated), with faults and batch sizes varied; a panic, a wedged worker or a wrong sentinel answer is a violation.",
         "Trusted base: catch_unwind; the capturing logger formats every record like a real logger. Kernel-level socket errors are not injected.", "DESIGN.md §3 C08"),
 "C09": ("exploration", "property-based testing (proptest) of multi-socket interleavings against the in-process Server; one-to-one reply/request matching under the strict verifier",
         "Generated interleavings of classic, IETF and invalid datagrams from up to 48 sockets (shared nonces, several requests per socket, bursts below/at/above batch_size) must yield exactly the owed replies, each provably for a request of the receiving socket.",
         "Only standard requests are owed a reply and only clearly invalid datagrams are owed silence; the in-between is not asserted. The kernel's multi-worker distribution is C18's business.", "DESIGN.md §3 C09"),
 "C10": ("exploration", "property-based testing (proptest) over seeds, restart histories and certificate sequences; differential against ring key derivation/verification and sha2",
         "Generated seeds and restart/certificate histories are checked against an independent RFC 8032 implementation: announced key, SRV, certificate shape, signature under the right context and non-verification under the other protocol's context, window contains the midpoint; library level and through in-process server restarts with traffic.",
         "Trusted base: ring, sha2. Per-worker certificates of the real multi-worker binary are collected by C15/C18.", "DESIGN.md §3 C10"),
 "C11": ("exploration", "property-based testing (proptest) over clock values through make_srep with a reference decoder; live bracketing of in-process server replies by the harness clock",
         "Pure: generated clock values including sub-second boundaries must give MIDP within one unit and RADI = 5 s in the protocol's unit. Live: replies of young and aged (>1 s) servers must lie inside the harness's clock bracket.",
         "Floor vs. round is not prescribed (within one unit). Live part reads the wall clock, which is the specification there; 250 ms slack.", "DESIGN.md §3 C11"),
 "C12": ("exploration", "bounded-exhaustive enumeration of version lists and SRV variants against the in-process Server with a truth-table oracle",
         "The full table of VER lists up to length 6 over five values x SRV variants, plus every single-bit SRV corruption, is sent to the real Server; presence/absence of each reply is compared with the property's truth table and every reply is strictly verified.",
         "Exhaustive within the stated alphabet only; other unknown version numbers are represented by three values.", "DESIGN.md §3 C12"),
 "C17": ("exploration", "bounded-exhaustive enumeration of operation histories + property-based testing (proptest) of long histories, worker splits and served traffic; step-invariant and conservation oracles",
         "Every history up to length 4/5 over 24 operations x 3 limits is enumerated with an implementation-agnostic exactly-one-counter invariant; long random histories, worker/snapshot splits through the real Reporter, and traffic through the real Server (stats off/on) are searched.",
         "Needs the guarded hooks (small-limit constructor, stats accessor, reporter view). Timer-driven snapshots inside the server are exercised only by the process-level checks.", "DESIGN.md §3 C17"),
 "C20": ("exploration", "property-based testing (proptest) with a needle-in-haystack oracle over emitted datagrams and captured log records at every log level; real-binary output scan",
         "For generated seeds and request mixes at each log level, every emitted datagram and formatted log record is scanned for every 16-byte/24-char window of the seed and derived private material in raw, hex and base64 forms; a positive control proves the haystack is live.",
         "Needle windows with fewer than 6 distinct byte values are skipped (degenerate seeds collide with honest zero/0xff fields). Chance collisions ~2^-128.", "DESIGN.md §3 C20"),
 "C01": ("fault_enumeration", "fault enumeration + property-based testing (proptest) of forged responses against the real client binary; independent lenient reference verifier as oracle",
         "Every single-component forgery class named in the property is enumerated in a fixed table (and every byte offset / truncation length in thorough) and thousands of generated forgery plans are delivered to the real client process by a UDP mock; the verdict is computed on the delivered bytes by an independent verifier, and the client must fail without printing a time whenever that verdict is 'not authentic'. Nonce freshness is checked across all runs.",
         "Trusted base: refproto.rs lenient verifier (authentic-biased), ring. Forgeries that would need a signature forgery are out of reach of any black-box search. The client is driven as a process (exit status, stdout, stderr).", "DESIGN.md §3 C01"),
 "C03": ("exploration", "property-based testing (proptest) + grid enumeration of honest exchanges between the real client binary and (a) a reference responder, (b) the real in-process Server behind a relay",
         "For both protocols, all key options, output modes, 1..=4 requests and every path depth (all 64x64 size/position pairs in thorough) the client must exit 0, print exactly the signed midpoint converted from the protocol's unit and report verified iff a key was given.",
         "Only responses the strict verifier accepts count as honest. Midpoints from the epoch to 9999-12-31; local-time formatting is not exercised (-z).", "DESIGN.md §3 C03"),
 "C15": ("exploration", "configuration-space sampling (pairwise-covering set + proptest draws) against the real server binary with /proc, UDP and TCP observations",
         "Each generated configuration starts the real binary; liveness and distinctness of every configured worker, exactly-once valid answers for 64*N requests, one certificate per worker, exact health-check responses and absence of panic text are asserted.",
         "Exploration over a sampled configuration space; TCP health connections are sequential (burst/accept-queue behaviour is not decided); deadlines are >= 50x the normal latency.", "DESIGN.md §3 C15"),
 "C16": ("exploration", "boundary-value grid + property-based testing (proptest) of configuration values through a probe process running the product's own loader, judged by a model of the documentation",
         "Every documented key is probed at its boundary and type-width wrap values through both sources; the loader must either reproduce the written value or refuse. Thorough adds start-up-log spot checks on the real server.",
         "The model encodes only ranges stated in README / ServerConfig rustdoc / the property; unclassified values are not generated.", "DESIGN.md §3 C16"),
 "C18": ("exploration", "randomised concurrent stress (seeded proptest round plans) of the real multi-worker binary with per-request strict verification; schedules sampled",
         "Many seeded rounds of concurrent closed-loop clients against 1..16 workers; every reply is verified for the outstanding request, duplicates/strays and dead workers are violations; diversity of the kernel's distribution is measured (distinct delegated keys seen).",
         "Schedules and SO_REUSEPORT distribution are sampled, not controlled: a pass is evidence over the sampled schedules only. Unanswered requests count only with zero kernel drops.", "DESIGN.md §3 C18, §4"),
 "C19": ("exploration", "fault/schedule sampling: signal delivery at swept delays under idle, closed-loop and flood load (grid + proptest plans) against the real binary",
         "Signal instants are swept over 0..300 ms and around the 100 ms poll and 1 s reporter periods, under three load shapes; exit status 0 within 5 s, no panic text and validity of every reply before exit are asserted; the flood's effect on the receive queue is measured.",
         "Delivery instants are sampled; bounded-response reading of 'promptly' (5 s). Fewer worker processes are used so floods get CPU.", "DESIGN.md §3 C19, §4"),
}

NOT_YET = {}

def main():
    props = [json.loads(l) for l in open('/verif/properties.jsonl')]
    ids = [p['id'] for p in props]
    checks = []
    for i in ids:
        if i in CHECKS:
            lvl, tech, text, note, ref = CHECKS[i]
            checks.append({
                "property_id": i,
                "quick_cmd": f"./run.sh {i} quick",
                "thorough_cmd": f"./run.sh {i} thorough",
                "evidence_file": f"/verif/evidence/{i}.json",
                "replay_cmd_template": "./run.sh replay {path}",
                "engine": "rv",
                "level_claimed": {"category": lvl, "text": text, "design_ref": ref},
                "level_note": note,
                "technique": tech,
            })
    na = [{"property_id": i, "reason": NOT_YET.get(i, "check not built yet in this session (planned, see DESIGN.md §3); not claimed until its machinery exists")} for i in ids if i not in CHECKS]
    commits = subprocess.run(["git","-C","/repo","log","--format=%h %s"],capture_output=True,text=True).stdout.splitlines()
    hook_commits = [c.split()[0] for c in commits if c.split(' ',1)[1].startswith('verif hooks')]
    m = {
        "version": 1,
        "setup_cmd": "./setup.sh",
        "hooks": {
            "guard": "cargo feature `verif` of the roughenough crate (off by default)",
            "enable": "the harness crate depends on roughenough = { path = \"/repo\", features = [\"verif\"] }; the product binaries used by process-level checks are built WITHOUT the feature",
            "baseline_off_cmd": "cd /repo && cargo test --workspace --no-fail-fast --offline",
            "source_commits": hook_commits,
            "add_only": True,
        },
        "engines": [
            {"name": "rv", "path": "/verif/harness", "serves_properties": [c["property_id"] for c in checks],
             "kind_free_text": "Rust harness: proptest generators with shrinking, bounded-exhaustive enumerators, independent reference codec/verifier (sha2, ring), in-process Server driver, client/server process drivers; sharded into worker processes"},
        ],
        "checks": checks,
        "not_applicable": na,
        "notes": "exit 0 = held, exit 1 = VIOLATION line printed, exit 2 = inconclusive (build failure / watchdog), never reported as a violation. VERIF_SEED selects the proptest seeds. known_findings.json lists fixed and open findings.",
    }
    json.dump(m, open('/verif/MANIFEST.json','w'), indent=1)
    print("checks:", len(checks), "not_applicable:", len(na))

main()
