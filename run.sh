#!/bin/bash
# run.sh <id> quick|thorough      run one property check (rebuilds from /repo's working tree first)
# run.sh replay <file>            re-execute a saved case
# exit 0 held / 1 VIOLATION printed / 2 inconclusive (build failure, watchdog)
set -u
cd /verif
export CARGO_NET_OFFLINE=true RUST_BACKTRACE=0
LOG=/verif/out/logs; mkdir -p "$LOG"

build() {
  # harness (path dependency on /repo with the 'verif' hook feature => recompiles when /repo/src changes)
  ( cd /verif/harness && cp -n /repo/Cargo.lock Cargo.lock 2>/dev/null; cargo build --offline --bins ) >"$LOG/build-harness.log" 2>&1 || { echo "inconclusive: harness build failed (see $LOG/build-harness.log)"; tail -20 "$LOG/build-harness.log"; return 2; }
  # product binaries exactly as shipped (no hook feature), optimised so that Ed25519 is not 50x slow
  ( cd /repo && CARGO_PROFILE_DEV_OPT_LEVEL=2 CARGO_PROFILE_DEV_DEBUG=0 CARGO_PROFILE_DEV_INCREMENTAL=false cargo build --offline --bins --target-dir /verif/target-repo ) >"$LOG/build-repo.log" 2>&1 || { echo "inconclusive: /repo build failed (see $LOG/build-repo.log)"; tail -20 "$LOG/build-repo.log"; return 2; }
  # LD_PRELOAD clock shim for C11's clock-step check (optional: without a C compiler that check reports itself skipped)
  if [ ! -f /verif/target/clockshim.so ] || [ /verif/harness/shim/clockshim.c -nt /verif/target/clockshim.so ]; then
    ( cc -shared -fPIC -O1 -o /verif/target/clockshim.so.tmp /verif/harness/shim/clockshim.c -ldl && mv /verif/target/clockshim.so.tmp /verif/target/clockshim.so ) >"$LOG/build-shim.log" 2>&1 || true
  fi
  return 0
}

if [ "${1:-}" = "build" ]; then build; exit $?; fi
if [ "${1:-}" = "replay" ]; then
  build || exit 2
  exec /verif/target/debug/rv replay "$2"
fi
ID="${1:?property id}"; TIER="${2:-${VERIF_TIER:-quick}}"
( flock 9; build ) 9>/verif/out/.build.lock || exit 2
exec /verif/target/debug/rv check "$ID" --tier "$TIER"
